#!/usr/bin/env python3
"""Regenerates /verif/MANIFEST.json from the table below (kept next to the
checks so the manifest cannot drift from what exists)."""
import json, os, sys

V = os.path.dirname(os.path.dirname(os.path.abspath(__file__)))

CHECKS = {
 "C10": dict(
  level="model_checking",
  technique="explicit-state BFS over the Parser-contract automaton; every transition replayed on the real store.CreateInMemory; invariant checked in every state",
  text="All legal Parser event sequences up to depth 6 (quick) / 8 (thorough) over a 14-event alphabet are enumerated breadth-first (surplus end events included: every event is also replayed directly after one); each one is replayed into a fresh real in-memory store and the whole Cursor contract (structure = model, Pos unique/ordered, parent links, per-element namespace ownership, call depth bounded by open elements at every Pull) is checked on the resulting tree. Long documents: EVERY item count from 1 to 1100 in three shapes (elements with attribute and text; rotating leaf kinds; one element with k attributes) plus 2049/4097/65537 items, with the same full tree comparison. Large flat/sibling/nested streams (up to 3*10^6 events) run in a subprocess under a 64 MB stack limit.",
  note="Trusted: the 60-line reference builder impl.FromEvents (inheritance of namespace bindings by prefix). Event values outside the alphabet, duplicate prefixes/attribute names on one element and sequences longer than the bound are not covered.",
  ref="2 C10"),
}

CHECKS.update({
 "C01": dict(
  level="exploration",
  technique="bounded-exhaustive enumeration of documents x context nodes x steps on the real evaluator, compared with a reference XPath evaluator by node identity",
  text="Every ordered forest with <=4 (quick) / <=5 (thorough) nodes over {a,b,text,comment,PI} x 5 attribute/namespace decorations (incl. elements that merely inherit namespaces) is built in the real store; every node of every kind is used as context node for all 13 axes x 12 node tests, the abbreviations, absolute paths in every syntactic position and two-step paths; results compared as identity sets with the reference evaluator.",
  note="Trusted: reference evaluator refxp (own self-test), reference tree builder. Order of namespace/attribute nodes within an element taken from the implementation. Name tests on the namespace axis not compared (outside the statement).",
  ref="2 C01"),
 "C02": dict(
  level="exploration",
  technique="bounded-exhaustive enumeration of documents x predicate-bearing paths on the real evaluator against a reference evaluator",
  text="All forests with <=4/5 nodes x 2 decorations x thousands of predicate-bearing expressions (every axis x tests x 41 predicates - incl. position()/last() inside function-call arguments -, attribute and namespace nodes as context nodes of predicated steps, ordered predicate pairs, nested predicates, filter expressions with predicates and continued paths, node-set variables and a user function as path heads); surviving nodes compared by identity with the reference.",
  note="Trusted: reference evaluator refxp. Only which nodes survive is compared here (order is C03).",
  ref="2 C02"),
 "C03": dict(
  level="exploration",
  technique="bounded-exhaustive enumeration of documents x node-set expressions; order/duplicate oracle on the implementation's own result plus reference comparison",
  text="All forests with <=3/4 nodes x 4 decorations: every 1-2 (thorough 1-3) step path over 13 axes x {node(),*}, attribute/namespace steps after reverse axes and 10 step forms x 7 predicates after multi-node context sets, from every context node; every ordered forest of 4-6 (thorough 7) elements x all one- and two-step paths from every context node; documents whose namespace declarations are reported twice in a row (as the XML adaptor does); a 20-30 path universe with all pairwise unions, count() of unions and association shapes from the root. Each returned slice is checked for duplicates, foreign cursors, strict monotonicity, ascending order where required, and set equality with the reference (union = sorted set union).",
  note="Document order is read from the implementation's own list order (its agreement with Pos() is C10). Trusted: refxp.",
  ref="2 C03"),
 "C04": dict(
  level="exploration",
  technique="bounded-exhaustive enumeration of strings/doubles/typed values through the real conversion paths against reference conversions",
  text="number() of every string of length <=5 (both tiers) over a 14-symbol alphabet (incl. U+00A0, U+0663) plus boundary words (other Unicode spaces, exponents, hex ...), directly and through element text; string() of 37 boundary doubles judged by the statement's own criterion; 52 conversion contexts x 35 typed values (implicit = explicit); string-value of every node of every forest <=4 nodes x 4 decorations through three APIs; node-set conversions over reverse axes from every context node.",
  note="Trusted: refxp/value.go. Doubles outside the boundary set and longer strings are not covered.",
  ref="2 C04"),
 "C05": dict(
  level="exploration",
  technique="exhaustive enumeration of all ordered operand pairs over a value alphabet x 6 operators against XPath 1.0 section 3.4",
  text="2 booleans, 11 numbers, 12 strings and every node-set of size <=3 (thorough: 4) over 10 elements whose values lie on both sides of zero, include zero and non-numbers: all ordered pairs x {=,!=,<,<=,>,>=}, operands as variables and (every 7th pair) as literals/paths.",
  note="Trusted: refxp.Compare. Values outside the alphabet not covered.",
  ref="2 C05"),
 "C06": dict(
  level="exploration",
  technique="exhaustive enumeration of all pairs of 40 boundary doubles x arithmetic operators and numeric functions, compared by bit pattern with Go float64",
  text="All ordered pairs of 40 boundary doubles x {+,-,*,div,mod}, unary minus, floor/ceiling/round of each, as variables and as literals; sum()/count() over all node-sets of size <=3 from a 10-text alphabet; sum() over every sequence of <=4 distinct nodes from 9 texts whose sum depends on rounding, cancellation and overflow to infinity (any order of IEEE additions accepted); every operator and rounding function with node-set operands in every storage order (all permutations of every 2-3 subset) and with reverse-axis paths as operands. No error or 'xpath query panic' allowed. sum() over elements with mixed content (text split by comments, processing instructions and child elements): 26 paths and every 1-2 element operand.",
  note="Open known finding C06-round-negative-tie (pinned by the repository's TestFunctionRound). Sign of zero not compared for round().",
  ref="2 C06"),
 "C07": dict(
  level="exploration",
  technique="exhaustive enumeration of strings over a Unicode character alphabet through every string function against rune-based reference implementations",
  text="All strings of length <=2/3 over an 11-character alphabet (ASCII, whitespace variants, precomposed/combining, supplementary plane, U+00A0, U+3000) in all pairs through the binary string functions; substring over 85/341 strings x 17 x 17 numeric arguments; translate over all triples of 21/85 strings; normalize-space over 7-symbol whitespace strings <=4/5; zero-argument forms from 5 context nodes; every result must be valid UTF-8.",
  note="Trusted: refxp/funcs.go.",
  ref="2 C07"),
 "C18": dict(
  level="exploration",
  technique="bounded-exhaustive enumeration of documents x starting nodes x relative expressions against the reference, plus path-split composition checked implementation-against-itself",
  text="All forests <=3/4 nodes x 4 decorations: every node of every kind as Exec starting cursor for ~190 relative expressions (vs. reference at context (n,1,1)); 30 prefixes x 50 suffixes (incl. numeric predicates not spelled as numbers: [$n], [count(../*) - 1], [string-length(name())]): Exec(root,P/R) against the union of Exec(n,R); the same composition on every ordered forest of 4-5 (thorough 6) elements; P/f() against f(P) for the 7 context-dependent builtins. 18 relative expressions and 6 suffixes with an absolute path inside a predicate, function argument, union or parenthesis, from every node.",
  note="Unmarshal tag context is covered in C19.",
  ref="2 C18"),
 "C11": dict(
  level="exploration",
  technique="bounded-exhaustive enumeration of binding environments x documents x expressions against the reference evaluated under the same bindings; call logs of recording user functions compared",
  text="27 binding environments (every other one handed over by assigning caller-built maps to the ContextSettings fields, as the CLI does; two prefixes each unbound/urn:u/urn:v incl. aliases x three function libraries incl. user count()/true() shadowing builtins; variables of all four types in three namespaces) x all forests <=3/4 nodes with namespaced elements/attributes x ~100 expressions using prefixed names, variables and calls (incl. prefixed calls spelling core functions; a bare node-set variable reference must return exactly the bound sequence); results and the (arguments, context, position, size) observed by user functions compared with the reference; ExecAsString / ExecAsNumber / ExecAsNodeset must give Exec's answer (converted) for every expression under every environment. 3 environments with a prefix bound to the empty namespace name x 17 prefixed name tests (bound, not unbound).",
  note="Assumes the library's documented 0-based ContextPosition(). Unbound names only in positions every evaluator must evaluate.",
  ref="2 C11"),
 "C12": dict(
  level="exploration",
  technique="bounded-exhaustive enumeration of documents x context nodes of every kind x name/count/lang expressions against the reference",
  text="All forests <=3/4 nodes x 6 decorations: 115 name()/local-name()/namespace-uri()/count() expressions (incl. unions of namespace and attribute nodes of one element) from every node of every kind; ~140 documents with xml:lang placements over 15 tag values (incl. every ordered arrangement of lang / p:lang / xml:lang on one element) x 50 lang() expressions from every node; every letter a-z in either case on either side.",
  note="Trusted: refxp.NodeNames/Lang.",
  ref="2 C12"),
 "C08": dict(
  level="exploration",
  technique="exhaustive enumeration of all token strings up to a length bound plus grammar-derived ASTs in several renderings, against a reference recogniser/evaluator",
  text="All token strings of length <=4 (quick) / <=5 (thorough) over a 26-token alphabet, joined with and without spaces: the reference recogniser decides expression vs. non-expression; non-expressions and XPath type errors must error, expressions must evaluate to the reference value. ~5000 generated ASTs (every sequence of <=3 steps over a 10-step alphabet abbreviated and expanded, context-dependent expressions in every argument slot of 9 functions, every triple of binary operators in both association shapes, unary minus/union vs. every operator, '*' everywhere, reserved-looking names, numeral/literal forms, nested predicates, predicated steps after a mid-path '//', filter paths, calls) rendered 6 ways on 3 documents against the reference evaluation of the generating tree; ~400 hand-listed lexical edge cases. Every axis and spelling of a step after a number, string, boolean, variable or parenthesised primary (39 lexical cases) must be an error.",
  note="Six open known findings, all in the generated lexer/grammar (gogll not available to regenerate): operator names reserved, '1.', '_' name start, whitespace inside QNames, Unicode spaces as whitespace, backslash escapes in literals. An error at the first Exec counts as rejection.",
  ref="2 C08"),
 "C09": dict(
  level="fault_enumeration",
  technique="bounded-exhaustive enumeration of abstract documents x serialisations through the real reader, with every truncation point, unbalancing tag mutation and reader deviation (short read / I/O error at every byte offset) enumerated",
  text="Every XML-serialisable forest with <=3/4 nodes x 6 namespace schemes x 192 serialisations (text as literal/char-refs/CDATA/split, empty-element tags, XML declaration and four charsets with harness-transcoded bytes, DOCTYPE, prolog/epilog content): the cursor tree is compared with the abstract document including one owned namespace node per in-scope binding; every proper prefix that cuts markup or the document element, every unbalancing tag deletion/swap a list of malformed inputs and references to 85 undeclared entity names (incl. the HTML ones) must error; every document length 1-400 items (and 1023-20000) compared node by node; deep chains of default-namespace declaration / un-declaration / re-declaration; one short read / one I/O error at every byte offset.",
  note="Whitespace-only top-level text and truncation exactly between prolog items are not judged. Go's encoding/xml decides well-formedness details beyond tag balance.",
  ref="2 C09"),
 "C16": dict(
  level="fault_enumeration",
  technique="bounded-exhaustive enumeration of JSON values x whitespace regimes through the real reader, with every truncation point, structural-byte mutation and reader deviation enumerated, judged by an independent JSON recogniser",
  text="Every JSON value with <=4/5 tokens and depth <=3 over unusual keys and 6/8 scalars, strings and keys spelling structural tokens, three whitespace regimes, arrays and objects of every member count 1-120, concatenated top-level values: tree vs. direct recursive mapping; every proper prefix and every single structural-byte deletion/duplication: error iff not a complete value sequence; one short read / one I/O error at every byte offset.",
  note="Top-level values adjacent without whitespace are not judged.",
  ref="2 C16"),
 "C17": dict(
  level="exploration",
  technique="exhaustive enumeration of all tag-soup token strings up to a length bound through the real reader against an independent walk of the HTML5 parser's DOM",
  text="Doctype + every token string of length <=4/5 over a 23-token and a 49-token tag-soup alphabet (namespace-looking attributes, multi-colon names, entities, raw-text elements): cursor tree vs. independent recursive walk of html.Parse; deep/wide families; every list length 1-300 and attribute count 1-64; 4 byte-order marks x 11 meta charset declarations x 9 payloads of high/invalid/multi-byte bytes (tree = html.Parse of the same bytes, no transcoding). Documents without a doctype are outside the statement: recorded, only required to return.",
  note="golang.org/x/net/html is the HTML5 algorithm the statement names (trusted).",
  ref="2 C17"),
 "C19": dict(
  level="exploration",
  technique="bounded-exhaustive enumeration of reflect-generated target types x tag expressions x nodes against values derived from separate Exec calls",
  text="50 field/element types (all supported kinds, pointer chains, nestings, the unsupported kinds, and defined types of supported kinds - error or converted value, never a panic) x 40 tag expressions (incl. reverse-axis results into slice fields) (both tiers; incl. magnitudes around 2^31, 2^32, 2^63, 2^64 - exact limits of the 64-bit kinds) x every element of 3 documents as *T and **T; slice targets over node-sets of 0-3 nodes in both orders and with a repeated node (expectation computed before the call from a copy; the caller's node-set must come back as given); pointer fields of re-used targets must be freshly allocated (old pointee untouched, new pointer); 36 ill-shaped targets and results; expected values from separate Exec calls plus the statement's conversion table; never a panic; untagged fields untouched.",
  note="Exec is trusted here (verified by C01-C07). Unrepresentable float->int conversions only required not to panic.",
  ref="2 C19"),
 "C13": dict(
  level="model_checking",
  technique="explicit-state BFS over call histories (Exec/Unmarshal/BuildExpr on shared objects) with state de-duplication; every transition replayed on fresh real objects; deep reflective fingerprints as invariant",
  text="States are the contents/length/capacity of two caller-held node-set slots on two documents; 150+ operations per state (44 menu expressions from 3 context nodes, results optionally kept - also re-sliced with spare capacity -, Unmarshal, BuildExpr); depth 2 (quick) / 3 (thorough). After every call: fingerprints (unexported fields, spare capacity, cyclic pointers) of the tree, both slots' full-capacity views, all compiled expressions and the caller's namespace, variable and function maps unchanged; the result equals the same call's result in every other history; reused compiled expression = freshly built one. Process histories: every ordered pair of 108 calls (32 near-duplicate expression texts; 8 texts x 3 context nodes x 2 documents; 10 texts about node values - string-values, node-set comparisons, sums - x 2 documents; 8 failing calls); every call repeated 500 times before each of 4 probes in a FRESH process - the second call's outcome must equal its outcome in a process where nothing ran before. Parser order: every ambiguous alternative list of every built C08 query rotated.",
  note="BuildExpr repeatability over the parser's internal (map-iteration) ordering is enumerated at deviation bound 1: every ambiguous alternative list of every built C08 query is rotated so that each alternative comes first once (reflection on the parse forest, no hook); simultaneous deviations in two lists are not enumerated.",
  ref="2 C13"),
 "C14": dict(
  level="model_checking",
  technique="stateless model checking of the real code under a cooperative scheduler: DFS over all thread schedules with iterative preemption bounding; library through proxy cursors whose accessors are scheduling points, CLI through on-the-fly source rewriting + go build -overlay (one process per execution)",
  text="Library: 15 scenarios of 2-3 threads x 1-2 real Exec calls sharing tree, compiled expressions, caller maps and a caller slice with spare capacity (two scenarios pass per-call bindings through the With* option helpers instead); every schedule with <=2 (thorough 3) preemptions: each call returns its serial result, shared slices unchanged at every scheduling point, deep fingerprints unchanged. Worker bodies: 7 scenarios of 2-3 documents (XML with attributes/namespaces, HTML, JSON) read concurrently through the library's parsers with a scheduling point at every Pull and every 12-byte Read, every schedule with <=3 (thorough 4) preemptions, each tree equal to the tree built alone. CLI: the real main() (rewritten: go statements, channel ops, WaitGroup/Mutex, every stdout/stderr write are scheduling points) on 6 file/flag scenarios with -c 2..4: no deadlock, stdout = concatenation of exactly the serial per-file blocks (contiguous, intact, any order), nothing written after main returns, diagnostics present. Auxiliary: the same library bodies and concurrent document reads free-running under the race detector, and the REAL tool built with the race detector on every CLI scenario with 8 workers and every input named five times (6 runs each): race detector silent, stdout = the one-worker multiset of lines.",
  note="Partial-order reduction for the library half: two audited executions per scenario take the full fingerprint of everything shared (proxy lists with spare capacity, real tree, compiled expressions, binding maps, caller slices, and - through a generated build overlay - every package-level variable of the library) at EVERY scheduling point, and a go/ast scan looks for writes to package-level variables outside init(); if nothing changes, every step is a read of shared state, steps are independent and all interleavings are trace-equivalent to the audited ones (evidence key library_reduction; not claimed otherwise). The CLI search prunes decisions already expanded from an identical global state (state key = per-thread operation/observation histories + channel contents + WaitGroup/mutex states + writes so far; validated at bound 1 against the unpruned search on every run). Quick caps each scenario of the bounded search (25000 / 4000 executions) and then reports exhaustive:false with the bounds completed. Interleavings below the granularity of tree accesses / user-function calls (library) and of output / synchronisation operations (tool) are only covered by the auxiliary -race passes. Every library scenario and every read scenario is explored in a process of its own; an execution that does not end within 100000 scheduling points, a call in flight for 240 s, a CLI execution longer than 5 minutes or a race pass longer than 20 minutes is reported as a violation (the calls take milliseconds). No hook is committed to /repo.",
  ref="2 C14"),
 "C20": dict(
  level="exploration",
  technique="bounded-exhaustive enumeration of file sets x flag combinations x expressions on the freshly built command, against per-file blocks derived from the library API",
  text="15 argument sets (good/bad/unknown files, % and entities in names/values, directories with and without -r, dangling symlink, missing file, stdin first/last) x ~110 flag combinations (-a -m -n -r -t -s -v -u -e -c) x 25 expressions: stdout must be a concatenation of exactly the expected per-file blocks; -m records must be single lines that parse back (harness-side XML parse) to the selected node's subtree with expanded names; diagnostics on stderr name each bad input.",
  note="Open known finding C20-newline-in-comment-or-pi. JSON-derived trees under -m (names like #obj, adjacent text nodes) are not judged for parse-back. Attribute/namespace nodes under -m only need one line carrying name and value.",
  ref="2 C20"),
 "C15": dict(
  level="exploration",
  technique="exhaustive enumeration of all strings up to a length bound over five byte/token alphabets through every public entry point, in worker subprocesses",
  text="All expression token strings (<=3/4 tokens incl. nil variables and user functions returning (nil,nil)/errors/panicking) built and executed on 2 documents under 3 binding sets; all expression byte strings <=4/5 over 23 symbols incl. invalid UTF-8, NUL and valid multi-byte characters; all XML/JSON byte strings <=5/6 and HTML token strings <=4/5 through the readers followed by 6 queries; the well-typed C01/C08 universes from every node (no 'xpath query panic'); an Unmarshal sweep (7 result shapes x 8 target shapes x 50 field types incl. defined types x tags; 14 statically declared targets with tagged unexported fields); a catalogue of 150+ charset labels (supported, registered but unsupported, stateful, unknown, odd spellings) in XML declarations and HTML meta elements x 5 bodies; nesting-depth sweeps in subprocesses. Oracle: returns (value,nil) or (_,err); no panic escapes; the process survives.",
  note="Bounded exhaustive, not coverage-guided. Unmarshal targets are covered by C19. Termination of pathological parses (the GLL parser is super-linear in '/*/*...') beyond the sweep sizes is not judged.",
  ref="2 C15"),
})

NOT_YET = {}

def main():
    props = [json.loads(l) for l in open(os.path.join(V, "properties.jsonl"))]
    checks, na = [], []
    for p in props:
        pid = p["id"]
        if pid in CHECKS:
            c = CHECKS[pid]
            checks.append({
                "property_id": pid,
                "quick_cmd": "./check %s quick" % pid,
                "thorough_cmd": "./check %s thorough" % pid,
                "evidence_file": "evidence/%s.json" % pid,
                "replay_cmd_template": "./check --replay {path}",
                "engine": "xv",
                "level_claimed": {"category": c["level"], "text": c["text"], "design_ref": "DESIGN.md §" + c["ref"]},
                "level_note": c["note"],
                "technique": c["technique"],
            })
        else:
            na.append({"property_id": pid, "reason": NOT_YET.get(pid, "check not built yet (work in progress; see DESIGN.md §5 build order)")})
    m = {
        "version": 1,
        "setup_cmd": "./setup.sh",
        "hooks": {
            "guard": "verif",
            "enable": "no hooks are committed to /repo: instrumentation is generated from /repo's current sources and applied with `go build -overlay <json>` by ./check - (1) harness/cmd/genglobals adds one file per library package exposing pointers to its package-level variables (read-only use: fingerprints in C13/C14); (2) harness/instr rewrites xsel/*.go for the CLI half of C14 (`-tags verif`)",
            "baseline_off_cmd": "cd /repo && GOFLAGS=-mod=mod GOPROXY=off GOSUMDB=off GOTOOLCHAIN=local go test -json -vet=off -count=1 -timeout 25m ./...",
            "source_commits": [],
            "add_only": True,
        },
        "engines": [
            {"name": "xv", "path": "harness/cmd/xv", "serves_properties": sorted(CHECKS.keys()),
             "kind_free_text": "hand-written bounded-exhaustive explorers in Go over the real library: E-input (all documents x context nodes x expressions up to a size bound, against a reference XPath evaluator), E-hist (BFS over operation/event sequences with state de-duplication), E-sched (stateless DFS over thread interleavings under a cooperative scheduler with preemption bounding)"},
        ],
        "checks": checks,
        "not_applicable": na,
        "notes": "All checks rebuild the harness against /repo's working tree (./check). Known findings: known_findings.json. Design: DESIGN.md.",
    }
    json.dump(m, open(os.path.join(V, "MANIFEST.json"), "w"), indent=1)
    print("wrote MANIFEST.json:", len(checks), "checks,", len(na), "not_applicable")

main()
