#!/bin/bash
# usage: tools/benigntest.sh <name> <worktree-with-benign.patch>
# Stores a behaviour-preserving change produced by a sub-agent under benign/<name>/ and
# confirms in a scratch worktree: builds, existing suite passes, its own demo passes with
# and without the patch. (Running the checks against it is done by tools/benignrun.sh.)
set -u
NAME=$1; WT=$2
export GOFLAGS=-mod=mod GOPROXY=off GOSUMDB=off GOTOOLCHAIN=local
V=/verif; OUT=$V/benign/$NAME; mkdir -p $OUT
cp $WT/benign.patch $OUT/patch.diff || exit 2
DEMO=$(cd $WT && git status --porcelain | grep '^??' | grep '_test.go' | awk '{print $2}' | head -1)
[ -n "$DEMO" ] && cp $WT/$DEMO $OUT/$(basename $DEMO)
SCR=/tmp/benignscratch.$$
git -C /repo worktree add -q $SCR HEAD || exit 2
trap 'git -C /repo worktree remove --force $SCR 2>/dev/null' EXIT
( cd $SCR && git apply $OUT/patch.diff ) || { echo "$NAME: patch does not apply"; exit 2; }
( cd $SCR && go build ./... && go test -vet=off -count=1 ./... 2>&1 | grep -E '^(ok|FAIL|---)' ) > $OUT/suite_with_patch.txt 2>&1
SUITE=$(grep -c FAIL $OUT/suite_with_patch.txt)
DW=0; DWO=0
if [ -n "$DEMO" ]; then
  cp $WT/$DEMO $SCR/$DEMO
  ( cd $SCR && go test -vet=off -count=1 -run 'Benign' ./$(dirname $DEMO) 2>&1 | tail -8 ) > $OUT/demo_with_patch.txt
  DW=$(grep -c -E '^(FAIL|--- FAIL)' $OUT/demo_with_patch.txt)
  ( cd $SCR && git apply -R $OUT/patch.diff && go test -vet=off -count=1 -run 'Benign' ./$(dirname $DEMO) 2>&1 | tail -5 ) > $OUT/demo_without_patch.txt
  DWO=$(grep -c -E '^(FAIL|--- FAIL)' $OUT/demo_without_patch.txt)
fi
echo "$NAME: suite FAIL lines with patch: $SUITE; demo fails with patch: $DW; without: $DWO; files: $(grep '^+++ b/' $OUT/patch.diff | sed 's#+++ b/##' | tr '\n' ' ')"
