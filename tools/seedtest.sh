#!/bin/bash
# usage: tools/seedtest.sh <seed-name> <worktree-with-seeded.patch> <property-id> [more property ids...]
# 1. confirms in a scratch worktree: existing tests pass with the patch, the demo
#    fails with it and passes without it; 2. applies the patch to /repo, runs the
#    named checks (quick), and undoes it; 3. stores everything under seeded/<name>/.
set -u
NAME=$1; WT=$2; shift 2
export GOFLAGS=-mod=mod GOPROXY=off GOSUMDB=off GOTOOLCHAIN=local
# SEED_REPO / SEED_VERIF: run against a scratch worktree and a scratch copy of /verif
# (whose harness/go.mod points at that worktree) instead of /repo and /verif
R=${SEED_REPO:-/repo}; V=${SEED_VERIF:-/verif}; OUT=/verif/seeded/$NAME; mkdir -p $OUT
[ "$R" != /repo ] && export XV_REPO=$R
cp $WT/seeded.patch $OUT/patch.diff || exit 2
DEMO=$(cd $WT && git status --porcelain | grep '^??' | grep '_test.go' | awk '{print $2}' | head -1)
cp $WT/$DEMO $OUT/$(basename $DEMO)
SCR=/tmp/seedscratch.$$
git -C /repo worktree add -q $SCR HEAD || exit 2
cleanup() { git -C /repo worktree remove --force $SCR 2>/dev/null; }
trap cleanup EXIT
( cd $SCR && git apply $OUT/patch.diff ) || { echo "patch does not apply to /repo HEAD"; exit 2; }
( cd $SCR && go build ./... && go test -vet=off -count=1 ./... 2>&1 | grep -E '^(ok|FAIL|---)' ) > $OUT/suite_with_patch.txt 2>&1
SUITE=$(grep -c FAIL $OUT/suite_with_patch.txt)
mkdir -p $SCR/$(dirname $DEMO); cp $WT/$DEMO $SCR/$DEMO
PKG=./$(dirname $DEMO)
( cd $SCR && go test -vet=off -count=1 -run 'Seeded' $PKG 2>&1 | tail -15 ) > $OUT/demo_with_patch.txt
DW=$(grep -c -E '^(FAIL|--- FAIL)' $OUT/demo_with_patch.txt)
( cd $SCR && git apply -R $OUT/patch.diff && go test -vet=off -count=1 -run 'Seeded' $PKG 2>&1 | tail -5 ) > $OUT/demo_without_patch.txt
DWO=$(grep -c -E '^(FAIL|--- FAIL)' $OUT/demo_without_patch.txt)
echo "suite FAIL lines with patch: $SUITE; demo fails with patch: $DW; demo fails without: $DWO"
# run the checks against /repo with the patch
git -C $R apply $OUT/patch.diff || exit 2
RES=""
for P in "$@"; do
  ( cd $V && VERIF_OUT_DIR=/tmp/seedrun.$$ ./check $P quick > $OUT/check_$P.txt 2>&1; echo "exit=$?" >> $OUT/check_$P.txt )
  E=$(tail -1 $OUT/check_$P.txt)
  RES="$RES $P:$E"
  grep -m2 -E '^(VIOLATION|-- )' $OUT/check_$P.txt | cut -c1-300
done
git -C $R checkout -- . ; git -C $R status --short | head -3
rm -rf /tmp/seedrun.$$
echo "RESULT $NAME:$RES"
