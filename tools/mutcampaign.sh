#!/bin/bash
# Mutation campaign used to evaluate the checks (DESIGN A.7); not a check itself.
# usage: tools/mutcampaign.sh <offset> [file-filter]
# Works on a scratch worktree of /repo HEAD and a scratch copy of /verif under /tmp/mut;
# never touches /repo. Results: /tmp/mut/results.<offset>.tsv
set -u
OFF=${1:-0}; FILTER=${2:-}
export GOFLAGS=-mod=mod GOPROXY=off GOSUMDB=off GOTOOLCHAIN=local
M=/tmp/mut; R=$M/repo; V=$M/verif
mkdir -p $M
if [ ! -d $R ]; then git -C /repo worktree add -q --detach $R HEAD || exit 2; fi
rm -rf $V; mkdir -p $V
rsync -a --exclude .git --exclude replays --exclude seeded --exclude evidence --exclude .bin /verif/ $V/
sed -i "s#=> /repo#=> $R#" $V/harness/go.mod
export XV_REPO=$R
( cd $V/harness && go build -o $M/mutbin ./cmd/mut ) || exit 2
RES=$M/results.$OFF.tsv; : > $RES
# file  stride  checks (fastest first; anchored properties, then generic ones)
PLAN="
exec/axisselectors.go 4 C03 C01 C02 C13 C18
exec/contextfn.go 4 C18 C11 C03 C13 C08 C01
exec/contextfn_comparisons.go 12 C05
exec/contextfn_helpers.go 4 C02 C08 C01
exec/contextfn_numbers.go 2 C06 C04 C08
exec/contextfn_paths.go 6 C18 C04 C11 C01 C02 C08
exec/exec.go 1 C18 C11 C13 C15
exec/function.go 6 C07 C06 C12 C04 C02 C15
exec/result.go 4 C06 C05 C04 C03
exec/unmarshal.go 6 C19 C18 C15
exec/xmlname.go 1 C11 C01
grammar/grammar.go 2 C08 C13 C15
parser/html.go 6 C17 C15
parser/json.go 6 C16 C15
parser/xml.go 6 C09 C15
store/inmemory.go 2 C10 C16 C03 C09 C01 C13
store/store.go 1 C12 C10 C03 C01
xsel.go 1 C19 C11 C09 C15
xsel/xsel.go 8 C20 C14
"
echo "$PLAN" | while read F STRIDE CHECKS; do
  [ -z "$F" ] && continue
  [ -n "$FILTER" ] && [ "$F" != "$FILTER" ] && continue
  N=$($M/mutbin count $R/$F)
  i=$((OFF % STRIDE))
  while [ $i -lt $N ]; do
    D=$($M/mutbin desc $R/$F $i | sed "s#$R/##")
    $M/mutbin apply $R/$F $i
    ST=""
    if ! ( cd $R && go build ./... ) >/dev/null 2>&1; then ST="nocompile"
    elif ! ( cd $R && timeout 300 go test -vet=off -count=1 -timeout 120s ./... ) >/dev/null 2>&1; then ST="suite"
    else
      for P in $CHECKS; do
        rm -rf $M/out
        ( cd $V && VERIF_OUT_DIR=$M/out timeout 900 ./check $P quick ) > $M/last.$P.log 2>&1
        rc=$?
        if [ $rc -eq 1 ]; then ST="killed:$P"; break
        elif [ $rc -eq 124 ]; then ST="hang:$P"; break
        elif [ $rc -ne 0 ]; then ST="broken:$P:rc=$rc"; break
        fi
      done
      [ -z "$ST" ] && ST="SURVIVED"
    fi
    printf "%s\t%d\t%s\t%s\n" "$F" $i "$ST" "$D" >> $RES
    git -C $R checkout -- . 
    i=$((i + STRIDE))
  done
done
echo DONE >> $RES
