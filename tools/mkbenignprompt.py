#!/usr/bin/env python3
"""usage: mkbenignprompt.py <property-id> <worktree> -> prompt for a fresh sub-agent that makes a
realistic BEHAVIOUR-PRESERVING change (used to look for false alarms of the checks)."""
import json, sys, glob
pid, wt = sys.argv[1], sys.argv[2]
have = []
for m in sorted(glob.glob('/verif/benign/benign-%s*/meta.json' % pid)):
    have.append('- ' + json.load(open(m))['what'])
prop = None
for l in open('/verif/properties.jsonl'):
    p = json.loads(l)
    if p['id'] == pid:
        prop = p
print(f"""You are helping to evaluate a verification harness for the Go library ChrisTrenkamp/xsel (an XPath 1.0 library and CLI). The harness must never raise an alarm on code for which a property still holds. Your job: make ONE realistic, non-trivial change to the library that a maintainer might well commit and that KEEPS the semantic property below true for every input - a refactor, an optimisation, a different but equivalent algorithm or data structure, a properly synchronised cache, pre-sized buffers, reordered internal steps, renamed or restructured unexported code, an added exported helper, better error message texts - in the code the property is anchored in.

Work ONLY inside your own scratch git worktree: {wt} (a checkout of the library; do not read or write anything under /verif or /repo, and do not use `git stash`). Every shell command needs: export GOFLAGS=-mod=mod GOPROXY=off GOSUMDB=off GOTOOLCHAIN=local (no network).

The property (id {pid}): {prop['title']}
Statement: {prop['statement']}
Quantified over: {prop['quantifier']['text']}
Code it is anchored in: {', '.join(prop['anchors']['files'])}

Behaviour-preserving changes already made for this property in an earlier round (make a DIFFERENT one - another function, another kind of restructuring):
{chr(10).join(have) if have else '- none'}

Requirements:
1. The change must be substantial enough to matter (10-60 changed lines), touch the anchored code paths, and must NOT change any behaviour the property (or any other reasonable user expectation documented in README.md) talks about: same results, same errors-vs-values, same ordering of returned node-sets, same document order positions, no new data races, no mutation of caller-owned data. Internal details a caller cannot observe (allocation patterns, unexported names, internal caches that are correctly synchronised and keyed, texts of error messages) may change.
2. `go build ./...` succeeds and `go test -vet=off -count=1 ./...` (the existing suite, unedited) passes.
3. Think adversarially about your own change: list the edge cases where it could differ from the old code (empty inputs, reverse-axis order, attribute/namespace nodes, NaN, non-ASCII, spare slice capacity, concurrency) and convince yourself - by reasoning and by a small test file `benign_demo_test.go` (package xsel_test, public API only, test names containing `Benign`) that compares old and new behaviour on such cases (you can record the old outputs first by running the test before making the change) - that behaviour is unchanged. The demo must PASS both without and with your change.
4. Finally leave the change applied and write `benign.patch` in the worktree root with `git diff -- . ':(exclude)benign_demo_test.go' > benign.patch` (library change only).

Report: what you changed and why it is behaviour-preserving, which edge cases you checked, and the commands you ran with their outcomes. If you find you cannot make a non-trivial change that is certainly behaviour-preserving in this area, make a smaller one that is - correctness of the "unchanged behaviour" claim matters more than size.""")
