#!/bin/bash
# usage: tools/seedrecheck.sh <seed-name> <property-id>...   (re-runs checks against an already stored seed)
set -u
NAME=$1; shift
R=${SEED_REPO:-/repo}; V=${SEED_VERIF:-/verif}; OUT=/verif/seeded/$NAME
[ "$R" != /repo ] && export XV_REPO=$R
[ -z "$(git -C $R status --porcelain)" ] || { echo "/repo not clean"; exit 2; }
git -C $R apply $OUT/patch.diff || exit 2
RES=""
for P in "$@"; do
  ( cd $V && VERIF_OUT_DIR=/tmp/seedrun.$$ ./check $P quick > $OUT/check_$P.txt 2>&1; echo "exit=$?" >> $OUT/check_$P.txt )
  RES="$RES $P:$(tail -1 $OUT/check_$P.txt)"
  grep -m2 -E '^(VIOLATION|-- )' $OUT/check_$P.txt | cut -c1-300
done
git -C $R checkout -- . ; git -C $R status --short | head -3
rm -rf /tmp/seedrun.$$
echo "RESULT $NAME:$RES"
