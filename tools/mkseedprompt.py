#!/usr/bin/env python3
"""usage: mkseedprompt.py <property-id> <worktree>  -> prompt text for a fresh seeding sub-agent.
The agent gets the property text, its own scratch worktree and one-line descriptions of
changes already seeded for that property (so that it picks a different mechanism); nothing else from /verif."""
import json, sys, glob
pid, wt = sys.argv[1], sys.argv[2]
prop = None
for l in open('/verif/properties.jsonl'):
    p = json.loads(l)
    if p['id'] == pid:
        prop = p
have = []
for m in sorted(glob.glob('/verif/seeded/seed-%s-*/meta.json' % pid)):
    have.append('- ' + json.load(open(m))['breaks'])
print(f"""You are helping to evaluate a verification harness for the Go library ChrisTrenkamp/xsel (an XPath 1.0 library and CLI). Your job: introduce ONE realistic bug into the library that breaks the semantic property below, while the module still compiles and its existing test suite still passes, and demonstrate it.

Work ONLY inside your own scratch git worktree: {wt} (a checkout of the library; do not read or write anything under /verif or /repo, and do not use `git stash` - worktrees share the stash; use `git diff` / `git apply -R` instead). Every shell command needs: export GOFLAGS=-mod=mod GOPROXY=off GOSUMDB=off GOTOOLCHAIN=local (no network).

The property (id {pid}): {prop['title']}
Statement: {prop['statement']}
Quantified over: {prop['quantifier']['text']}
Why the existing tests cannot settle it: {prop['why_tests_cant']}
Code it is anchored in: {', '.join(prop['anchors']['files'])}

Changes already seeded for this property (pick a DIFFERENT mechanism, file or function where possible, and a different triggering input class):
{chr(10).join(have) if have else '- none'}

Requirements for your change:
1. It is the kind of slip a maintainer could plausibly make (a refactor, an optimisation, a copy-paste, an off-by-one, a dropped update, aliasing) - small (1-15 lines), not a blatant sabotage, and it only manifests for some inputs (say which).
2. `go build ./...` succeeds and `go test -vet=off -count=1 ./...` (the existing suite, unedited) still passes with the change.
3. Write a demonstration test file `seeded_demo_test.go` in the worktree root (package xsel_test, public API only; for CLI properties it may build ./xsel with `go build -o` into a temp dir and run it). Its test names must contain `Seeded`. It must FAIL with your change and PASS without it. Verify both (remove the change with `git diff -- . ':(exclude)seeded_demo_test.go' > {wt}.mine.patch && git apply -R {wt}.mine.patch`, run, then re-apply).
4. Finally leave the change applied and write `seeded.patch` in the worktree root with `git diff -- . ':(exclude)seeded_demo_test.go' > seeded.patch` (library change only, not the demo).

Report: the file/function changed, why it breaks the property, the condition needed to manifest, and the commands you ran with their outcomes.""")
