#!/bin/bash
# usage: tools/benignrun.sh <name>...   applies the stored benign patches (those that apply on top of
# each other) to /repo, runs EVERY quick check (evidence goes to a scratch dir), reverts.
set -u
V=/verif
[ -z "$(git -C /repo status --porcelain)" ] || { echo "/repo not clean"; exit 2; }
APPLIED=""
for N in "$@"; do
  if git -C /repo apply $V/benign/$N/patch.diff 2>/dev/null; then APPLIED="$APPLIED $N"; else echo "skipped (conflicts with earlier ones): $N"; fi
done
echo "applied:$APPLIED"
( cd /repo && GOFLAGS=-mod=mod GOPROXY=off GOSUMDB=off GOTOOLCHAIN=local go build ./... ) || { echo "combined tree does not build"; git -C /repo checkout -- .; exit 2; }
OUT=/tmp/benignrun.$$; mkdir -p $OUT
IDS="${CHECKS:-$(python3 -c "import json;print(' '.join(c['property_id'] for c in json.load(open('$V/MANIFEST.json'))['checks']))")}"
for id in $IDS; do
  ( cd $V && VERIF_OUT_DIR=$OUT ./check $id quick > $OUT/$id.log 2>&1; echo "$id exit=$? $(tail -1 $OUT/$id.log | cut -c1-160)" )
done
git -C /repo checkout -- .; git -C /repo status --short | head -3
echo "logs in $OUT"
