#!/bin/sh
# Runs every claimed check (tier $1, default quick) in /verif against /repo and
# reports exit codes; evidence files are rewritten by the checks themselves.
cd "$(dirname "$0")/.." || exit 2
TIER="${1:-quick}"
rc=0
for id in $(python3 -c "import json;print(' '.join(c['property_id'] for c in json.load(open('MANIFEST.json'))['checks']))"); do
  ./check "$id" "$TIER" > "/tmp/runall.$id.log" 2>&1
  r=$?
  tail -1 "/tmp/runall.$id.log"
  [ $r -ne 0 ] && { echo "  -> exit $r ($id)"; rc=1; }
done
exit $rc
