// Package impl bridges abstract documents (adoc) to the implementation under
// test: it feeds them to store.CreateInMemory through a scripted
// parser.Parser, and binds the resulting cursor tree back to the abstract
// nodes by identity.
package impl

import (
	"fmt"
	"io"

	"github.com/ChrisTrenkamp/xsel/node"
	"github.com/ChrisTrenkamp/xsel/store"

	"xv/adoc"
)

// ---- node implementations handed to the store ------------------------------

type Elem struct{ S, L string }

func (e Elem) Space() string { return e.S }
func (e Elem) Local() string { return e.L }

type Attr struct{ S, L, V string }

func (a Attr) Space() string          { return a.S }
func (a Attr) Local() string          { return a.L }
func (a Attr) AttributeValue() string { return a.V }

type NS struct{ P, V string }

func (n NS) Prefix() string         { return n.P }
func (n NS) NamespaceValue() string { return n.V }

type Text struct{ V string }

func (t Text) CharDataValue() string { return t.V }

type Comment struct{ V string }

func (c Comment) CommentValue() string { return c.V }

type PI struct{ T, V string }

func (p PI) Target() string        { return p.T }
func (p PI) ProcInstValue() string { return p.V }

// ---- events ---------------------------------------------------------------

type EvKind int

const (
	EvStart EvKind = iota
	EvEnd
	EvNS
	EvAttr
	EvText
	EvComment
	EvPI
)

type Event struct {
	K     EvKind
	Space string `json:",omitempty"`
	Local string `json:",omitempty"`
	Value string `json:",omitempty"`
}

func (e Event) String() string {
	switch e.K {
	case EvStart:
		if e.Space != "" {
			return "start({" + e.Space + "}" + e.Local + ")"
		}
		return "start(" + e.Local + ")"
	case EvEnd:
		return "end"
	case EvNS:
		return "ns(" + e.Local + "=" + e.Value + ")"
	case EvAttr:
		return "attr(" + e.Local + "=" + e.Value + ")"
	case EvText:
		return fmt.Sprintf("text(%q)", e.Value)
	case EvComment:
		return fmt.Sprintf("comment(%q)", e.Value)
	case EvPI:
		return "pi(" + e.Local + ")"
	}
	return "?"
}

// Events linearises a document into the Parser contract's event order.
func Events(d *adoc.Doc) []Event {
	var evs []Event
	var walk func(n *adoc.Node)
	walk = func(n *adoc.Node) {
		switch n.Kind {
		case adoc.Root:
			for _, c := range n.Children {
				walk(c)
			}
		case adoc.Elem:
			evs = append(evs, Event{K: EvStart, Space: n.Space, Local: n.Local})
			if d.ImplicitXML {
				evs = append(evs, Event{K: EvNS, Local: "xml", Value: adoc.XMLNS})
			}
			for _, dc := range n.Decls {
				evs = append(evs, Event{K: EvNS, Local: dc.Prefix, Value: dc.URI})
				if d.RepeatDecls {
					evs = append(evs, Event{K: EvNS, Local: dc.Prefix, Value: dc.URI})
				}
			}
			for _, a := range n.Attrs {
				evs = append(evs, Event{K: EvAttr, Space: a.Space, Local: a.Local, Value: a.Value})
			}
			for _, c := range n.Children {
				walk(c)
			}
			evs = append(evs, Event{K: EvEnd})
		case adoc.Text:
			evs = append(evs, Event{K: EvText, Value: n.Value})
		case adoc.Comment:
			evs = append(evs, Event{K: EvComment, Value: n.Value})
		case adoc.PI:
			evs = append(evs, Event{K: EvPI, Local: n.Local, Value: n.Value})
		}
	}
	walk(d.Root)
	return evs
}

// Scripted is a parser.Parser that replays a fixed event list.
type Scripted struct {
	Evs    []Event
	I      int
	OnPull func(i int) // called at the start of every Pull (stack probes)
	// FailAt >= 0 makes the Pull with that index return Err.
	FailAt int
	Err    error
}

func NewScripted(evs []Event) *Scripted { return &Scripted{Evs: evs, FailAt: -1} }

func (s *Scripted) Pull() (node.Node, bool, error) {
	if s.OnPull != nil {
		s.OnPull(s.I)
	}
	if s.FailAt >= 0 && s.I == s.FailAt {
		s.I++
		return nil, false, s.Err
	}
	if s.I >= len(s.Evs) {
		s.I++
		return nil, false, io.EOF
	}
	e := s.Evs[s.I]
	s.I++
	switch e.K {
	case EvStart:
		return Elem{e.Space, e.Local}, false, nil
	case EvEnd:
		return nil, true, nil
	case EvNS:
		return NS{e.Local, e.Value}, false, nil
	case EvAttr:
		return Attr{e.Space, e.Local, e.Value}, false, nil
	case EvText:
		return Text{e.Value}, false, nil
	case EvComment:
		return Comment{e.Value}, false, nil
	case EvPI:
		return PI{e.Local, e.Value}, false, nil
	}
	return nil, false, fmt.Errorf("bad event")
}

// BuildStore feeds the document to store.CreateInMemory.
func BuildStore(d *adoc.Doc) (store.Cursor, error) {
	c, err := store.CreateInMemory(NewScripted(Events(d)))
	if err != nil {
		return nil, err
	}
	return c, nil
}

// ---- reading a cursor tree back into an abstract document -------------------

// Read converts any cursor tree into a fresh abstract document, taking the
// tree exactly as the implementation exposes it (namespace nodes included, in
// the listed order).  It also returns both identity maps.
type Binding struct {
	Doc    *adoc.Doc
	Root   store.Cursor
	ToNode map[store.Cursor]*adoc.Node
	ToCur  map[*adoc.Node]store.Cursor
}

func NodeOf(c store.Cursor) (*adoc.Node, error) {
	switch v := c.Node().(type) {
	case node.Namespace:
		return &adoc.Node{Kind: adoc.NS, Local: v.Prefix(), Value: v.NamespaceValue()}, nil
	case node.Attribute:
		return &adoc.Node{Kind: adoc.Attr, Space: v.Space(), Local: v.Local(), Value: v.AttributeValue()}, nil
	case node.CharData:
		return &adoc.Node{Kind: adoc.Text, Value: v.CharDataValue()}, nil
	case node.Comment:
		return &adoc.Node{Kind: adoc.Comment, Value: v.CommentValue()}, nil
	case node.ProcInst:
		return &adoc.Node{Kind: adoc.PI, Local: v.Target(), Value: v.ProcInstValue()}, nil
	case node.Element:
		return &adoc.Node{Kind: adoc.Elem, Space: v.Space(), Local: v.Local()}, nil
	}
	return nil, fmt.Errorf("unknown node type %T", c.Node())
}

// Read walks the cursor tree. Structural anomalies that make identity binding
// impossible (the same cursor listed twice) are returned as errors.
func Read(root store.Cursor) (*Binding, error) {
	b := &Binding{Doc: &adoc.Doc{Root: &adoc.Node{Kind: adoc.Root}}, Root: root,
		ToNode: map[store.Cursor]*adoc.Node{}, ToCur: map[*adoc.Node]store.Cursor{}}
	var firstErr error
	bind := func(c store.Cursor, n *adoc.Node) {
		if _, dup := b.ToNode[c]; dup && firstErr == nil {
			firstErr = fmt.Errorf("cursor %v (pos %d) is listed more than once in the tree", c.Node(), c.Pos())
		}
		b.ToNode[c] = n
		b.ToCur[n] = c
	}
	var walk func(c store.Cursor, n *adoc.Node, depth int)
	walk = func(c store.Cursor, n *adoc.Node, depth int) {
		if depth > 10000 {
			if firstErr == nil {
				firstErr = fmt.Errorf("tree deeper than 10000 (cycle?)")
			}
			return
		}
		for _, x := range c.Namespaces() {
			m, err := NodeOf(x)
			if err != nil || m.Kind != adoc.NS {
				if firstErr == nil {
					firstErr = fmt.Errorf("non-namespace node in Namespaces() of %s", n.Describe())
				}
				continue
			}
			m.Parent = n
			n.NS = append(n.NS, m)
			bind(x, m)
		}
		for _, x := range c.Attributes() {
			m, err := NodeOf(x)
			if err != nil || m.Kind != adoc.Attr {
				if firstErr == nil {
					firstErr = fmt.Errorf("non-attribute node in Attributes() of %s", n.Describe())
				}
				continue
			}
			m.Parent = n
			n.Attrs = append(n.Attrs, m)
			bind(x, m)
		}
		for _, x := range c.Children() {
			m, err := NodeOf(x)
			if err != nil || !m.IsTreeNode() {
				if firstErr == nil {
					firstErr = fmt.Errorf("bad child node in Children() of %s", n.Describe())
				}
				continue
			}
			m.Parent = n
			n.Children = append(n.Children, m)
			bind(x, m)
			walk(x, m, depth+1)
		}
	}
	bind(root, b.Doc.Root)
	walk(root, b.Doc.Root, 0)
	b.Doc.Renumber()
	return b, firstErr
}

// Bind builds the implementation tree for an abstract document through the
// in-memory store, reads it back, and checks it has the structure of d.  The
// returned binding's Doc is the read-back document (namespace/attribute
// order as exposed by the implementation), which is what the reference
// evaluator then works on.
func Bind(d *adoc.Doc) (*Binding, error) {
	root, err := BuildStore(d)
	if err != nil {
		return nil, fmt.Errorf("store.CreateInMemory: %v", err)
	}
	return BindTo(d, root)
}

func BindTo(d *adoc.Doc, root store.Cursor) (*Binding, error) {
	b, err := Read(root)
	if err != nil {
		return nil, err
	}
	if got, want := b.Doc.Canon(), d.Canon(); got != want {
		return nil, fmt.Errorf("tree built by the store differs from the document fed to it:\n got  %s\n want %s", got, want)
	}
	return b, nil
}

func (b *Binding) Cursors(ns []*adoc.Node) []store.Cursor {
	out := make([]store.Cursor, len(ns))
	for i, n := range ns {
		out[i] = b.ToCur[n]
	}
	return out
}

// FromEvents is the reference model of the store: it builds the abstract
// document a contract-conforming event sequence denotes. Open elements at
// the end of the sequence are closed implicitly; surplus end events at top
// level are ignored.
func FromEvents(evs []Event) *adoc.Doc {
	d := adoc.NewDoc()
	cur := d.Root
	for _, e := range evs {
		switch e.K {
		case EvStart:
			n := &adoc.Node{Kind: adoc.Elem, Space: e.Space, Local: e.Local}
			cur.Add(n)
			cur = n
		case EvEnd:
			if cur.Parent != nil {
				cur = cur.Parent
			}
		case EvNS:
			cur.Decls = append(cur.Decls, adoc.Decl{Prefix: e.Local, URI: e.Value})
		case EvAttr:
			cur.Add(&adoc.Node{Kind: adoc.Attr, Space: e.Space, Local: e.Local, Value: e.Value})
		case EvText:
			cur.Add(adoc.T(e.Value))
		case EvComment:
			cur.Add(adoc.C(e.Value))
		case EvPI:
			cur.Add(adoc.P(e.Local, e.Value))
		}
	}
	return d.Finish()
}
