// Package sched is a cooperative scheduler for stateless model checking of
// real Go code: the threads of a scenario are goroutines of which exactly one
// runs at a time; at every scheduling point the scheduler - not the Go runtime
// - decides who continues. An Explorer enumerates all schedules up to a
// preemption bound by depth-first search over the recorded choice points.
package sched

import (
	"fmt"
	"sync"
	"time"
)

type thread struct {
	id      int
	name    string
	resume  chan struct{}
	done    bool
	started bool
	cond    func() bool // non-nil: blocked until cond() is true
	fn      func()
}

// Point is one recorded scheduling decision.
type Point struct {
	Enabled        []int // thread ids in canonical order (running thread first if enabled, then ascending)
	Running        int
	RunningEnabled bool
	Chosen         int // index into Enabled
	Label          string
	// Key, when the scenario supplies Sched.KeyFn, fingerprints the global
	// state in which this decision was taken (0: none). The Explorer uses it to
	// prune decisions already expanded from an identical state.
	Key uint64 `json:"key,omitempty"`
}

type Sched struct {
	prefix    []int
	Points    []Point
	threads   []*thread
	cur       int
	yield     chan struct{}
	Deadlock  bool
	Diverged  string                       // non-empty: the prefix could not be replayed
	OnPoint   func(s *Sched, label string) // invariant hook evaluated at every scheduling point
	label     string
	mu        sync.Mutex
	panicVal  interface{}
	MaxPoints int
	Truncated bool
	// Policy, when set, decides every choice after the prefix (default: 0 =
	// keep running the current thread). It receives the enabled thread ids in
	// canonical order and the running thread and returns an index into enabled.
	Policy func(enabled []int, running int) int
	// KeyFn, when set, is evaluated at every scheduling point while no thread
	// runs and must fingerprint everything the future can depend on.
	KeyFn func() uint64
}

func New(prefix []int) *Sched {
	return &Sched{prefix: prefix, cur: -1, yield: make(chan struct{}), MaxPoints: 100000}
}

// Go registers a new thread. It may be called before Run or from a running
// thread (then the caller continues until its next scheduling point).
func (s *Sched) Go(name string, fn func()) int {
	s.mu.Lock()
	t := &thread{id: len(s.threads), name: name, resume: make(chan struct{}), fn: fn}
	s.threads = append(s.threads, t)
	s.mu.Unlock()
	go func() {
		<-t.resume
		defer func() {
			if r := recover(); r != nil {
				s.mu.Lock()
				if s.panicVal == nil {
					s.panicVal = fmt.Sprintf("thread %s panicked: %v", t.name, r)
				}
				s.mu.Unlock()
			}
			t.done = true
			s.yield <- struct{}{}
		}()
		t.fn()
	}()
	return t.id
}

// Cur returns the id of the running thread.
func (s *Sched) Cur() int { return s.cur }

// Point is a scheduling point: the running thread offers the processor.
func (s *Sched) Point(label string) {
	if s == nil || s.cur < 0 {
		return
	}
	t := s.threads[s.cur]
	s.label = label
	s.yield <- struct{}{}
	<-t.resume
}

// Block suspends the running thread until cond() holds (evaluated by the
// scheduler while no thread runs). It is also a scheduling point.
func (s *Sched) Block(label string, cond func() bool) {
	if s == nil || s.cur < 0 {
		return
	}
	t := s.threads[s.cur]
	t.cond = cond
	s.label = label
	s.yield <- struct{}{}
	<-t.resume
}

func (s *Sched) enabled() []int {
	var out []int
	runningEnabled := false
	for _, t := range s.threads {
		if t.done {
			continue
		}
		if t.cond != nil && !t.cond() {
			continue
		}
		if t.id == s.cur {
			runningEnabled = true
			continue
		}
		out = append(out, t.id)
	}
	if runningEnabled {
		out = append([]int{s.cur}, out...)
	}
	return out
}

// Run executes the scenario under the schedule prefix (then choice 0 - keep
// running the current thread - at every later point). It returns a panic
// message of a thread, if any.
func (s *Sched) Run() (panicMsg string) {
	watchdog := time.NewTimer(60 * time.Second)
	defer watchdog.Stop()
	for {
		en := s.enabled()
		if len(en) == 0 {
			allDone := true
			for _, t := range s.threads {
				if !t.done {
					allDone = false
				}
			}
			if !allDone {
				s.Deadlock = true
			}
			break
		}
		if s.OnPoint != nil {
			s.OnPoint(s, s.label)
		}
		choice := 0
		i := len(s.Points)
		if i < len(s.prefix) {
			choice = s.prefix[i]
			if choice >= len(en) {
				s.Diverged = fmt.Sprintf("point %d: prefix asks for choice %d of %d enabled threads", i, choice, len(en))
				choice = 0
			}
		} else if s.Policy != nil {
			if choice = s.Policy(en, s.cur); choice < 0 || choice >= len(en) {
				choice = 0
			}
		}
		runningEnabled := len(en) > 0 && en[0] == s.cur
		var key uint64
		if s.KeyFn != nil {
			key = s.KeyFn()
		}
		s.Points = append(s.Points, Point{Enabled: en, Running: s.cur, RunningEnabled: runningEnabled, Chosen: choice, Label: s.label, Key: key})
		if len(s.Points) > s.MaxPoints {
			s.Truncated = true
			break
		}
		t := s.threads[en[choice]]
		t.cond = nil
		s.cur = t.id
		t.resume <- struct{}{}
		if len(s.Points)%64 == 0 {
			if !watchdog.Stop() {
				select {
				case <-watchdog.C:
				default:
				}
			}
			watchdog.Reset(60 * time.Second)
		}
		select {
		case <-s.yield:
		case <-watchdog.C:
			return "scheduler watchdog: a thread did not reach a scheduling point within 60 s (blocked outside the scheduler?)"
		}
		if s.panicVal != nil {
			break
		}
	}
	s.cur = -1
	if s.panicVal != nil {
		return fmt.Sprint(s.panicVal)
	}
	return ""
}

// Choices returns the choice made at every point.
func (s *Sched) Choices() []int {
	out := make([]int, len(s.Points))
	for i, p := range s.Points {
		out[i] = p.Chosen
	}
	return out
}

// Preemptions counts the context switches away from a still-enabled thread
// among the first n points.
func Preemptions(points []Point, n int) int {
	c := 0
	for i := 0; i < n && i < len(points); i++ {
		if points[i].RunningEnabled && points[i].Chosen != 0 {
			c++
		}
	}
	return c
}

// Explorer enumerates schedules depth-first with a preemption bound.
type Explorer struct {
	Bound      int
	Exec       func(prefix []int) (points []Point, verdict string) // runs one execution; verdict != "" is a violation
	Executions int
	MaxExec    int
	Stop       func() bool
	Violation  string
	Schedule   []int
	Capped     bool
	Outcomes   map[string]int
	// Prune enables state-key pruning (Points must carry Key): a decision
	// (state, thread to run) is expanded once per budget level - again only if
	// reached with fewer preemptions used. Sound when Key determines the future
	// and the verdict (the scenario's responsibility).
	Prune   bool
	Pruned  int
	visited map[[2]uint64]int
}

func (e *Explorer) Explore() {
	e.visited = map[[2]uint64]int{}
	e.explore(nil)
}

func (e *Explorer) explore(prefix []int) {
	if e.Violation != "" || e.Capped {
		return
	}
	if (e.MaxExec > 0 && e.Executions >= e.MaxExec) || (e.Stop != nil && e.Stop()) {
		e.Capped = true
		return
	}
	points, verdict := e.Exec(prefix)
	e.Executions++
	if verdict != "" {
		e.Violation = verdict
		e.Schedule = make([]int, len(points))
		for i, p := range points {
			e.Schedule[i] = p.Chosen
		}
		return
	}
	if e.Prune {
		// register the decisions this execution took beyond its prefix (the last
		// prefix element is the deviation that defined it)
		from := len(prefix) - 1
		if from < 0 {
			from = 0
		}
		for i := from; i < len(points); i++ {
			if p := points[i]; p.Key != 0 && p.Chosen < len(p.Enabled) {
				k := [2]uint64{p.Key, uint64(p.Enabled[p.Chosen])}
				used := Preemptions(points, i+1)
				if prev, ok := e.visited[k]; !ok || used < prev {
					e.visited[k] = used
				}
			}
		}
	}
	for i := len(prefix); i < len(points); i++ {
		p := points[i]
		cost := Preemptions(points, i)
		for alt := 1; alt < len(p.Enabled); alt++ {
			c := cost
			if p.RunningEnabled {
				c++ // switching away from a runnable thread is a preemption
			}
			if c > e.Bound {
				continue
			}
			if e.Prune && p.Key != 0 {
				k := [2]uint64{p.Key, uint64(p.Enabled[alt])}
				if prev, ok := e.visited[k]; ok && prev <= c {
					e.Pruned++
					continue
				}
			}
			next := make([]int, i+1)
			for k := 0; k < i; k++ {
				next[k] = points[k].Chosen
			}
			next[i] = alt
			e.explore(next)
			if e.Violation != "" || e.Capped {
				return
			}
		}
	}
}
