package props

import (
	"encoding/json"
	"fmt"
	"math"
	"reflect"
	"strconv"
	"strings"

	"github.com/ChrisTrenkamp/xsel"

	"xv/adoc"
	"xv/impl"
	"xv/run"
)

// ---- C19: Unmarshal fills targets with the converted results of their tag queries ----

var c19Tags = []string{".", "@x", "a", "a/b", "count(a)", "'s'", "1 div 0", "0 div 0", "//b", "$v", "$unbound", "((", "name()", "position()", "last()", "..", "string-length(.)", "-1.5", "300", "true()", "*", "node()", "a[1]", "''", "-7", "70000", "2.5", "1e3", "text()", "$ns",
	// magnitudes around the limits of the 32- and 64-bit integer kinds
	// reverse axes: slice fields get their elements in result order (nearest first)
	"ancestor-or-self::*", "preceding::*", "preceding-sibling::*",
	"18000000000000000000", "9223372036854775808", "-9223372036854775808", "9223372036854774784", "4294967296", "-2147483649", "18446744073709549568"}

type c19Leaf struct {
	S string `xsel:"."`
}
type c19Leaf2 struct {
	N string `xsel:"name()"`
	C int    `xsel:"count(*)"`
	K string
}

// defined (named) types of supported kinds: the statement speaks of kinds, the
// implementation refuses them with an error - either is accepted, a panic is not
type c19Dur int64
type c19Celsius float64
type c19Label string
type c19Flag bool
type c19Labels []string
type c19Byte uint8

func c19FieldTypes() []reflect.Type {
	var s string
	var i int
	leaf := reflect.TypeOf(c19Leaf{})
	leaf2 := reflect.TypeOf(c19Leaf2{})
	ts := []reflect.Type{
		reflect.TypeOf(""), reflect.TypeOf(true), reflect.TypeOf(int(0)), reflect.TypeOf(int8(0)), reflect.TypeOf(int16(0)), reflect.TypeOf(int32(0)), reflect.TypeOf(int64(0)),
		reflect.TypeOf(uint(0)), reflect.TypeOf(uint8(0)), reflect.TypeOf(uint16(0)), reflect.TypeOf(uint32(0)), reflect.TypeOf(uint64(0)), reflect.TypeOf(float32(0)), reflect.TypeOf(float64(0)),
		reflect.TypeOf([]string{}), reflect.TypeOf([]int{}), reflect.TypeOf([]float64{}), reflect.TypeOf([]bool{}), leaf, leaf2, reflect.SliceOf(leaf), reflect.SliceOf(leaf2),
		reflect.TypeOf(&s), reflect.TypeOf(&i), reflect.PointerTo(reflect.TypeOf(&i)), reflect.PointerTo(leaf), reflect.SliceOf(reflect.TypeOf(&s)), reflect.SliceOf(reflect.PointerTo(leaf)),
		reflect.PointerTo(reflect.TypeOf([]string{})), reflect.SliceOf(reflect.PointerTo(reflect.TypeOf(&i))),
		// unsupported kinds
		reflect.TypeOf([][]int{}), reflect.TypeOf(map[string]string{}), reflect.TypeOf([2]int{}), reflect.TypeOf(make(chan int)), reflect.TypeOf(func() {}), reflect.TypeOf((*interface{})(nil)).Elem(),
		reflect.TypeOf([]map[string]int{}), reflect.TypeOf([][]string{}), reflect.TypeOf(complex(0, 0)), reflect.TypeOf(uintptr(0)),
		// defined types
		reflect.TypeOf(c19Dur(0)), reflect.TypeOf(c19Celsius(0)), reflect.TypeOf(c19Label("")), reflect.TypeOf(c19Flag(false)), reflect.TypeOf(c19Byte(0)), reflect.TypeOf(c19Labels{}),
		reflect.TypeOf([]c19Label{}), reflect.TypeOf([]c19Dur{}), reflect.PointerTo(reflect.TypeOf(c19Celsius(0))), reflect.SliceOf(reflect.PointerTo(reflect.TypeOf(c19Label("")))),
	}
	return ts
}

const (
	stOK = iota
	stErr
	stLenient // outcome not fixed by the statement: only "no panic"
)

func representable(f float64, k reflect.Kind) bool {
	if math.IsNaN(f) || math.IsInf(f, 0) {
		return k == reflect.Float64 || k == reflect.Float32
	}
	switch k {
	case reflect.Float64:
		return true
	case reflect.Float32:
		return float64(float32(f)) == f
	}
	if f != math.Trunc(f) {
		return false
	}
	lim := map[reflect.Kind][2]float64{
		// the largest doubles below 2^63 and 2^64 (64-bit int/uint: the harness runs on amd64/arm64)
		reflect.Int: {-(1 << 63), 1<<63 - 1024}, reflect.Int8: {-128, 127}, reflect.Int16: {-32768, 32767}, reflect.Int32: {-(1 << 31), 1<<31 - 1}, reflect.Int64: {-(1 << 63), 1<<63 - 1024},
		reflect.Uint: {0, 1<<64 - 2048}, reflect.Uint8: {0, 255}, reflect.Uint16: {0, 65535}, reflect.Uint32: {0, 1<<32 - 1}, reflect.Uint64: {0, 1<<64 - 2048},
	}
	if strconv.IntSize != 64 && (k == reflect.Int || k == reflect.Uint) {
		return false
	}
	l, ok := lim[k]
	return ok && f >= l[0] && f <= l[1]
}

type c19Env struct {
	b        *impl.Binding
	settings []xsel.ContextApply
}

// expected computes the value a target of type t must hold after being filled
// from result res (independent of exec/unmarshal.go; uses separate Exec calls).
func (e *c19Env) expected(t reflect.Type, res xsel.Result, depth int) (reflect.Value, int) {
	if depth > 6 {
		return reflect.Value{}, stLenient
	}
	if t.PkgPath() != "" && t.Kind() != reflect.Struct {
		return reflect.Value{}, stLenient // defined type of a basic or slice kind
	}
	switch t.Kind() {
	case reflect.Pointer:
		inner, st := e.expected(t.Elem(), res, depth+1)
		if st != stOK {
			return reflect.Value{}, st
		}
		p := reflect.New(t.Elem())
		p.Elem().Set(inner)
		return p, stOK
	case reflect.String:
		return reflect.ValueOf(res.String()).Convert(t), stOK
	case reflect.Bool:
		return reflect.ValueOf(res.Bool()).Convert(t), stOK
	case reflect.Int, reflect.Int8, reflect.Int16, reflect.Int32, reflect.Int64, reflect.Uint, reflect.Uint8, reflect.Uint16, reflect.Uint32, reflect.Uint64, reflect.Float32, reflect.Float64:
		f := res.Number()
		if !representable(f, t.Kind()) {
			return reflect.Value{}, stLenient
		}
		return reflect.ValueOf(f).Convert(t), stOK
	case reflect.Slice:
		ns, ok := res.(xsel.NodeSet)
		if !ok {
			return reflect.Value{}, stErr
		}
		et := t.Elem()
		base := et
		for base.Kind() == reflect.Pointer {
			base = base.Elem()
		}
		out := reflect.MakeSlice(t, 0, len(ns))
		if len(ns) == 0 {
			switch base.Kind() {
			case reflect.Slice, reflect.Map, reflect.Array, reflect.Chan, reflect.Func, reflect.Interface:
				return reflect.Value{}, stLenient
			}
			return reflect.Zero(t), stOK // nil or empty: compared by length
		}
		if base.Kind() == reflect.Slice {
			return reflect.Value{}, stErr
		}
		for _, n := range ns {
			ev, st := e.expected(et, xsel.NodeSet{n}, depth+1)
			if st != stOK {
				return reflect.Value{}, st
			}
			out = reflect.Append(out, ev)
		}
		return out, stOK
	case reflect.Struct:
		ns, ok := res.(xsel.NodeSet)
		if !ok || len(ns) != 1 {
			return reflect.Value{}, stErr
		}
		v := reflect.New(t).Elem()
		lenient := false
		for i := 0; i < t.NumField(); i++ {
			f := t.Field(i)
			tag := f.Tag.Get("xsel")
			if tag == "" {
				continue
			}
			g, bo := BuildImpl(tag)
			if g == nil {
				_ = bo
				return reflect.Value{}, stErr
			}
			r, err := xsel.Exec(ns[0], g, e.settings...)
			if err != nil {
				return reflect.Value{}, stErr
			}
			if !f.IsExported() {
				return reflect.Value{}, stErr
			}
			fv, st := e.expected(f.Type, r, depth+1)
			switch st {
			case stErr:
				return reflect.Value{}, stErr
			case stLenient:
				lenient = true
				continue
			}
			v.Field(i).Set(fv)
		}
		if lenient {
			return reflect.Value{}, stLenient
		}
		return v, stOK
	}
	return reflect.Value{}, stErr
}

func deepEq(a, b reflect.Value) bool {
	if a.Kind() != b.Kind() {
		return false
	}
	switch a.Kind() {
	case reflect.Float32, reflect.Float64:
		x, y := a.Float(), b.Float()
		return x == y || (math.IsNaN(x) && math.IsNaN(y))
	case reflect.Pointer:
		if a.IsNil() || b.IsNil() {
			return a.IsNil() == b.IsNil()
		}
		return deepEq(a.Elem(), b.Elem())
	case reflect.Slice:
		if a.Len() != b.Len() {
			return false
		}
		for i := 0; i < a.Len(); i++ {
			if !deepEq(a.Index(i), b.Index(i)) {
				return false
			}
		}
		return true
	case reflect.Struct:
		for i := 0; i < a.NumField(); i++ {
			if !a.Type().Field(i).IsExported() {
				continue
			}
			if !deepEq(a.Field(i), b.Field(i)) {
				return false
			}
		}
		return true
	}
	return reflect.DeepEqual(a.Interface(), b.Interface())
}

func callUnmarshal(res xsel.Result, target interface{}, settings []xsel.ContextApply) (err error, panicked string) {
	defer func() {
		if r := recover(); r != nil {
			panicked = fmt.Sprint(r)
		}
	}()
	slot := run.Enter("Unmarshal", fmt.Sprintf("%T", target))
	defer run.Leave(slot)
	return xsel.Unmarshal(res, target, settings...), ""
}

type c19Case struct {
	Kind   string       `json:"kind"`
	Events []impl.Event `json:"events"`
	Node   string       `json:"node"`
	Type   string       `json:"type"`
	Tag    string       `json:"tag"`
	Detail string       `json:"detail"`
}

func c19Docs() []*adoc.Doc {
	mk := func(root *adoc.Node) *adoc.Doc { d := adoc.NewDoc(); d.Root.Add(root); return d.Finish() }
	a := adoc.E("a", adoc.T("7"), adoc.E("b", adoc.T("2")))
	a.Add(adoc.A("x", "41"))
	r1 := adoc.E("r", a, adoc.E("a", adoc.E("b", adoc.T("3")), adoc.E("b", adoc.T("4.5"))), adoc.E("b", adoc.T("x")))
	r1.Add(adoc.A("x", "-3"))
	r2 := adoc.E("r", adoc.T("300"), adoc.E("a"), adoc.C("c"))
	r3 := adoc.E("r", adoc.E("a", adoc.T(" 12 ")), adoc.E("a", adoc.T("NaN")), adoc.E("a", adoc.T("1e3")), adoc.E("b", adoc.E("b", adoc.T("70000"))))
	r3.Add(adoc.A("x", "255"))
	return []*adoc.Doc{mk(r1), mk(r2), mk(r3)}
}

type c19Unexported struct {
	a string `xsel:"."`
}
type c19UnexportedMixed struct {
	A string `xsel:"name()"`
	b int    `xsel:"1"`
}
type c19Embedded struct {
	c19Leaf
	X string `xsel:"@x"`
}

// c19CheckStruct fills struct{F ft `xsel:"tag"`; U string; G int `xsel:"count(*)"`}
// from node n as *T and **T and compares with the expected value.
func c19CheckStruct(b *impl.Binding, env *c19Env, settings []xsel.ContextApply, n *adoc.Node, ft reflect.Type, tag string) (string, string) {
	st := reflect.StructOf([]reflect.StructField{
		{Name: "F", Type: ft, Tag: reflect.StructTag(`xsel:"` + strings.ReplaceAll(tag, `"`, `\"`) + `"`)},
		{Name: "U", Type: reflect.TypeOf("")},
		{Name: "G", Type: reflect.TypeOf(0), Tag: `xsel:"count(*)"`},
	})
	res := xsel.NodeSet{b.ToCur[n]}
	distinct := ""
	for depth := 1; depth <= 3; depth++ {
		target := reflect.New(st)
		target.Elem().Field(1).SetString("keep")
		if depth == 3 {
			// a target that is being re-used: tagged fields hold old content, which
			// must be replaced, not extended
			c19Junk(target.Elem().Field(0))
			c19Junk(target.Elem().Field(2))
		}
		// "pointer fields freshly allocated": what an old pointer of the field
		// points at belongs to whoever else holds that pointer - it must be neither
		// re-used nor written through
		var oldPtr reflect.Value
		oldText := ""
		if f0 := target.Elem().Field(0); depth == 3 && f0.Kind() == reflect.Pointer && !f0.IsNil() {
			oldPtr = f0
			oldText = fmt.Sprint(derefAll(f0))
			oldPtr = reflect.ValueOf(f0.Interface()) // a copy of the pointer value
		}
		arg := target
		if depth == 2 {
			pp := reflect.New(target.Type())
			pp.Elem().Set(target)
			arg = pp
		}
		uerr, pan := callUnmarshal(res, arg.Interface(), settings)
		if pan != "" {
			return "PANIC: " + pan, ""
		}
		want, status := env.expected(st, res, 0)
		switch status {
		case stErr:
			if uerr == nil {
				return fmt.Sprintf("target cannot be filled / result has the wrong shape, but Unmarshal returned nil (field F = %v)", target.Elem().Field(0).Interface()), ""
			}
		case stOK:
			if uerr != nil {
				return "unexpected error: " + uerr.Error(), ""
			}
			want.Field(1).SetString("keep")
			if !deepEq(target.Elem(), want) {
				return fmt.Sprintf("target = %+v, want %+v", derefAll(target.Elem()), derefAll(want)), ""
			}
			if oldPtr.IsValid() {
				if now := fmt.Sprint(derefAll(oldPtr)); now != oldText {
					return fmt.Sprintf("the value the field's old pointer points at was overwritten (%s -> %s): pointer fields are to be freshly allocated", oldText, now), ""
				}
				if f0 := target.Elem().Field(0); !f0.IsNil() && f0.Pointer() == oldPtr.Pointer() {
					return "the pointer field still holds its old pointer: pointer fields are to be freshly allocated", ""
				}
			}
			distinct = ft.String() + "|" + tag + "|" + fmt.Sprint(derefAll(want))
		case stLenient:
			if target.Elem().Field(1).String() != "keep" {
				return "untagged field modified", ""
			}
		}
	}
	return "", distinct
}

// c19Junk fills a field with non-zero old content.
func c19Junk(v reflect.Value) {
	if !v.CanSet() {
		return
	}
	switch v.Kind() {
	case reflect.String:
		v.SetString("old")
	case reflect.Bool:
		v.SetBool(true)
	case reflect.Int, reflect.Int8, reflect.Int16, reflect.Int32, reflect.Int64:
		v.SetInt(77)
	case reflect.Uint, reflect.Uint8, reflect.Uint16, reflect.Uint32, reflect.Uint64:
		v.SetUint(77)
	case reflect.Float32, reflect.Float64:
		v.SetFloat(7.7)
	case reflect.Slice:
		el := reflect.New(v.Type().Elem()).Elem()
		c19Junk(el)
		v.Set(reflect.Append(reflect.MakeSlice(v.Type(), 0, 4), el, el))
	case reflect.Pointer:
		p := reflect.New(v.Type().Elem())
		c19Junk(p.Elem())
		v.Set(p)
	case reflect.Struct:
		for i := 0; i < v.NumField(); i++ {
			if v.Type().Field(i).Tag.Get("xsel") != "" {
				c19Junk(v.Field(i))
			}
		}
	}
}

func c19Settings(b *impl.Binding) []xsel.ContextApply {
	var nsPaths []xsel.Cursor
	for _, n := range b.Doc.Nodes {
		if n.Kind == adoc.Elem && n.Local == "b" {
			nsPaths = append(nsPaths, b.ToCur[n])
		}
	}
	return []xsel.ContextApply{xsel.WithVariable("v", xsel.Number(42)), xsel.WithVariable("ns", xsel.NodeSet(nsPaths))}
}

func C19(c *run.Check) {
	defer finishTriage()
	docs := c19Docs()
	ftypes := c19FieldTypes()
	tags := c19Tags // all tags in both tiers (seconds)
	report := func(kind string, d *adoc.Doc, node, typ, tag, msg string) {
		cs := c19Case{Kind: kind, Events: impl.Events(d), Node: node, Type: typ, Tag: tag, Detail: msg}
		if triage {
			tri.add(kind+" "+typ+" / "+firstWords(msg, 6), fmt.Sprintf("node=%s tag=%q: %s", node, tag, msg))
			return
		}
		c.Violation(cs, fmt.Sprintf("[%s] doc=%s node=%s target=%s tag=%q: %s", kind, d.String(), node, typ, tag, msg))
	}
	type job struct{ d, t, g int }
	var jobs []job
	for d := range docs {
		for t := range ftypes {
			for g := range tags {
				jobs = append(jobs, job{d, t, g})
			}
		}
	}
	run.ParallelW(len(jobs), func(w, ji int) {
		if (!triage && c.Violations() > 0) || c.TimeUp() {
			return
		}
		j := jobs[ji]
		d := docs[j.d]
		b, err := impl.Bind(d.Clone().Finish())
		if err != nil {
			panic(err)
		}
		settings := c19Settings(b)
		env := &c19Env{b: b, settings: settings}
		ft, tag := ftypes[j.t], tags[j.g]
		for _, n := range b.Doc.Nodes {
			if n.Kind != adoc.Elem {
				continue
			}
			c.Evaluations.Add(2)
			msg, distinct := c19CheckStruct(b, env, settings, n, ft, tag)
			if msg != "" {
				report("struct", d, n.Path(), ft.String(), tag, msg)
				return
			}
			if distinct != "" {
				c.Distinct(distinct)
			}
		}
		// slice targets of element type ft over node-sets of 0..3 nodes
		var elems []xsel.Cursor
		for _, n := range b.Doc.Nodes {
			if n.Kind == adoc.Elem {
				elems = append(elems, b.ToCur[n])
			}
		}
		if j.g == 0 {
			for k := 0; k <= 3 && k <= len(elems); k++ {
				for _, variant := range []int{0, 1, 2} {
					rev, dup := variant == 1, variant == 2
					ns := xsel.NodeSet{}
					for i := 0; i < k; i++ {
						ns = append(ns, elems[i])
					}
					if rev {
						for l, r := 0, len(ns)-1; l < r; l, r = l+1, r-1 {
							ns[l], ns[r] = ns[r], ns[l]
						}
					}
					if dup && k > 0 {
						ns = append(ns, ns[0]) // the same node twice: two elements
					}
					// the expectation is computed first, from a copy: the call must not
					// be able to influence it through the caller's slice
					want, status := env.expected(reflect.SliceOf(ft), append(xsel.NodeSet{}, ns...), 0)
					given := append(xsel.NodeSet{}, ns...)
					sl := reflect.New(reflect.SliceOf(ft))
					c.Evaluations.Add(1)
					uerr, pan := callUnmarshal(ns, sl.Interface(), settings)
					if pan != "" {
						report("slice", d, fmt.Sprint(k, " nodes"), "[]"+ft.String(), "", "PANIC: "+pan)
						return
					}
					for i := range given {
						if ns[i] != given[i] {
							report("slice", d, fmt.Sprint(k, " nodes"), "[]"+ft.String(), "", "Unmarshal rearranged the caller's node-set")
							return
						}
					}
					switch status {
					case stErr:
						if uerr == nil {
							report("slice", d, fmt.Sprint(k, " nodes"), "[]"+ft.String(), "", "unsupported element type / wrong shape but Unmarshal returned nil")
							return
						}
					case stOK:
						if uerr != nil {
							report("slice", d, fmt.Sprint(k, " nodes"), "[]"+ft.String(), "", "unexpected error: "+uerr.Error())
							return
						}
						if !deepEq(sl.Elem(), want) && !(sl.Elem().Len() == 0 && want.Len() == 0) {
							report("slice", d, fmt.Sprint(k, " nodes"), "[]"+ft.String(), "", fmt.Sprintf("target = %v, want %v", derefAll(sl.Elem()), derefAll(want)))
							return
						}
						c.Distinct("[]" + ft.String() + fmt.Sprint(k, rev))
					}
				}
			}
			// non-node-set results for slice and struct targets
			for _, r := range []xsel.Result{xsel.Number(1), xsel.String("s"), xsel.Bool(true)} {
				sl := reflect.New(reflect.SliceOf(ft))
				c.Evaluations.Add(1)
				if uerr, pan := callUnmarshal(r, sl.Interface(), settings); pan != "" || uerr == nil {
					report("slice", d, "non-node-set result", "[]"+ft.String(), "", fmt.Sprintf("err=%v panic=%q", uerr, pan))
					return
				}
			}
		}
	})
	// ill-shaped targets and results
	b, _ := impl.Bind(docs[0].Clone().Finish())
	one := xsel.NodeSet{b.ToCur[b.Doc.Root.Children[0]]}
	var nilLeaf *c19Leaf
	var nilSlice *[]string
	var ip *int
	leaf := c19Leaf{}
	pl := &leaf
	x := 5
	bad := []struct {
		name   string
		res    xsel.Result
		target interface{}
	}{
		{"nil target", one, nil}, {"struct by value", one, c19Leaf{}}, {"nil *struct", one, nilLeaf}, {"nil *[]string", one, nilSlice}, {"nil *int", one, ip}, {"int", one, 5}, {"*int", one, &x},
		{"string", one, "s"}, {"map", one, map[string]string{}}, {"*map", one, &map[string]string{}}, {"array", one, [2]int{}}, {"*array", one, &[2]int{}}, {"chan", one, make(chan int)}, {"func", one, func() {}},
		{"slice by value", one, []string{}}, {"*[][]int", one, &[][]int{}}, {"unexported tagged field", one, &c19Unexported{}}, {"unexported tagged field (mixed)", one, &c19UnexportedMixed{}},
		{"empty node-set into struct", xsel.NodeSet{}, &c19Leaf{}}, {"two nodes into struct", xsel.NodeSet{one[0], one[0]}, &c19Leaf{}}, {"number into struct", xsel.Number(1), &c19Leaf{}},
		{"string into slice", xsel.String("x"), &[]string{}}, {"nil result into struct", nil, &c19Leaf{}}, {"nil result into slice", nil, &[]string{}}, {"**struct with nil inner", one, &nilLeaf},
		{"**slice with nil inner", one, &nilSlice}, {"***struct with nil inner", one, func() interface{} { p := &nilLeaf; return &p }()}, {"**int with nil inner", one, &ip},
		{"**[]struct with nil inner", one, func() interface{} { var p *[]c19Leaf; return &p }()},
		{"interface holding struct", one, interface{}(c19Leaf{})}, {"*interface", one, new(interface{})}, {"unsafe nil map field", one, &struct {
			M map[string]string `xsel:"."`
		}{}}, {"array field", one, &struct {
			A [2]int `xsel:"."`
		}{}}, {"chan field", one, &struct {
			C chan int `xsel:"."`
		}{}}, {"func field", one, &struct {
			F func() `xsel:"."`
		}{}}, {"interface field", one, &struct {
			I interface{} `xsel:"."`
		}{}}, {"bad tag", one, &struct {
			S string `xsel:"(("`
		}{}}, {"unbound variable tag", one, &struct {
			S string `xsel:"$nope"`
		}{}}, {"[][]int field", one, &struct {
			S [][]int `xsel:"//b"`
		}{}},
	}
	for _, t := range bad {
		c.Evaluations.Add(1)
		uerr, pan := callUnmarshal(t.res, t.target, nil)
		if pan != "" {
			report("ill-shaped", docs[0], "/0", t.name, "", "PANIC: "+pan)
		} else if uerr == nil {
			report("ill-shaped", docs[0], "/0", t.name, "", "target that cannot be filled / result of the wrong shape accepted with a nil error")
		}
	}
	// well-shaped special targets
	c.Evaluations.Add(2)
	if uerr, pan := callUnmarshal(one, &pl, nil); uerr != nil || pan != "" || leaf.S != "7234.5x" {
		report("pointer-chain", docs[0], "/0", "**struct", "", fmt.Sprintf("err=%v panic=%q S=%q (want \"7234.5x\")", uerr, pan, leaf.S))
	}
	emb := c19Embedded{}
	if uerr, pan := callUnmarshal(xsel.NodeSet{b.ToCur[b.Doc.Root.Children[0]]}, &emb, nil); pan != "" {
		report("embedded", docs[0], "/0", "embedded struct", "", "PANIC: "+pan)
	} else {
		_ = uerr
	}
	c.Sample(map[string]string{"target": "struct{F []*struct{S string `xsel:\".\"`} `xsel:\"a/b\"`; U string; G int `xsel:\"count(*)\"`}", "doc": docs[0].String(), "node": "every element"})
	c.Sample(map[string]string{"target": "struct{F uint8 `xsel:\"-1.5\"`}", "doc": docs[2].String()})
	c.Set("field_types", len(ftypes))
	c.Set("tags", len(tags))
	c.Rule = fmt.Sprintf("target types built with reflect.StructOf/SliceOf/PointerTo: %d field/element types (string, bool, every int/uint width, floats, slices of scalars/structs/pointers, nested structs, pointer chains, the unsupported kinds map/array/chan/func/interface/[][]T/complex/uintptr, and defined types of supported kinds - for those an error or the converted value is accepted, a panic is not) x %d tag expressions (node-sets of 0/1/many nodes, numbers incl. NaN/Inf/negative/out of range, strings, booleans, variables, unbound variable, syntax error) x every element node of 3 documents, as *T and **T; slice targets over node-sets of 0-3 nodes in both orders and with a node repeated (the caller's node-set must come back as given); 36 ill-shaped targets/results (nil, non-pointers, nil pointers, unexported tagged fields ...). Expected values come from separate Exec calls and the statement's conversion table (numeric fields only compared when the double is representable in the field type); never a panic; untagged fields untouched. non-trivial = distinct (type, tag, filled value)", len(ftypes), len(tags))
	c.Assume("Exec itself is verified by C01-C07; Go leaves float->int conversion of unrepresentable values implementation-defined, those are only required not to panic")
}

func derefAll(v reflect.Value) string {
	var sb strings.Builder
	var w func(v reflect.Value)
	w = func(v reflect.Value) {
		switch v.Kind() {
		case reflect.Pointer:
			if v.IsNil() {
				sb.WriteString("nil")
				return
			}
			sb.WriteString("&")
			w(v.Elem())
		case reflect.Slice:
			sb.WriteString("[")
			for i := 0; i < v.Len(); i++ {
				if i > 0 {
					sb.WriteString(" ")
				}
				w(v.Index(i))
			}
			sb.WriteString("]")
		case reflect.Struct:
			sb.WriteString("{")
			for i := 0; i < v.NumField(); i++ {
				if !v.Type().Field(i).IsExported() {
					continue
				}
				if i > 0 {
					sb.WriteString(" ")
				}
				sb.WriteString(v.Type().Field(i).Name + ":")
				w(v.Field(i))
			}
			sb.WriteString("}")
		default:
			fmt.Fprintf(&sb, "%v", v.Interface())
		}
	}
	w(v)
	return sb.String()
}

func init() {
	Registry["C19"] = Prop{"exploration", C19}
	replayers["C19"] = func(raw json.RawMessage) string {
		var cs c19Case
		json.Unmarshal(raw, &cs)
		if cs.Kind == "struct" {
			for _, ft := range c19FieldTypes() {
				if ft.String() != cs.Type {
					continue
				}
				b, err := impl.Bind(impl.FromEvents(cs.Events))
				if err != nil {
					return err.Error()
				}
				n := b.Doc.Resolve(cs.Node)
				settings := c19Settings(b)
				fmt.Printf("target: struct{F %s `xsel:%q`; U string; G int `xsel:\"count(*)\"`} filled from %s of %s\n", ft, cs.Tag, n.Describe(), b.Doc.String())
				msg, _ := c19CheckStruct(b, &c19Env{b: b, settings: settings}, settings, n, ft, cs.Tag)
				return msg
			}
		}
		return "re-run ./check C19 quick: the case is regenerated from type=" + cs.Type + " tag=" + cs.Tag + " (" + cs.Detail + ")"
	}
}
