package props

import (
	"bytes"
	"encoding/json"
	"fmt"
	"os"
	"os/exec"
	"path/filepath"
	"reflect"
	"strconv"
	"strings"
	"sync/atomic"

	"github.com/ChrisTrenkamp/xsel"
	"github.com/ChrisTrenkamp/xsel/store"

	"xv/adoc"
	"xv/impl"
	"xv/refxp"
	"xv/run"
)

// ---- C15: no input crashes the library: failures are returned as errors ----------

var c15ExprBytes = []string{"/", "a", "[", "]", "(", ")", "'", "\"", "$", ":", "*", ".", "1", "-", "\x80", "\xff", "\x00", "@", "|", " ", "\u00e9", "\u65e5\u672c\u8a9e", "\U0001F600"}
var c15XMLBytes = []string{"<", ">", "/", "a", "=", "\"", "&", ";", "#", "!", "-", "[", "]", "?", " ", "x", ":", "\x00", "\xff"}
var c15JSONBytes = []string{"{", "}", "[", "]", ":", ",", "\"", "a", "1", "-", ".", "e", "t", " ", "\\", "n", "\xff"}
var c15HTMLToks = []string{"<!doctype html>", "<a", ">", "</", "a>", "<!--", "-->", "x", "=", "\"", "<svg>", "&", "<table>", "<", "\x00", "</html>"}

type c15Kind struct {
	name   string
	alpha  []string
	maxLen [2]int // quick, thorough
}

var c15Kinds = []c15Kind{
	{"expr-tokens", nil, [2]int{3, 4}}, // C08 token alphabet (+ binding tokens), built AND executed
	{"expr-bytes", c15ExprBytes, [2]int{4, 5}},
	{"xml-bytes", c15XMLBytes, [2]int{5, 6}},
	{"json-bytes", c15JSONBytes, [2]int{5, 6}},
	{"html-tokens", c15HTMLToks, [2]int{4, 5}},
}

func c15Alphabet(k c15Kind) []string {
	if k.name == "expr-tokens" {
		return append(append([]string{}, c08Tokens...), "$n", "u()", "e(", "boom()", "$ns", "count(", "substring(", "-1", "9999999999", "\u65e5\u672c\u8a9e", "'\u00e9\U0001F600'")
	}
	return k.alpha
}

func c15Decode(alpha []string, idx int, offs []int) []string {
	l := 0
	for l+1 < len(offs) && idx >= offs[l+1] {
		l++
	}
	k := idx - offs[l]
	toks := make([]string, l)
	for j := l - 1; j >= 0; j-- {
		toks[j] = alpha[k%len(alpha)]
		k /= len(alpha)
	}
	return toks
}

func c15Space(n, maxLen int) (total int, offs []int) {
	pow := 1
	for l := 0; l <= maxLen; l++ {
		offs = append(offs, total)
		total += pow
		pow *= n
	}
	return
}

// c15Settings: three binding sets, including a nil variable and user functions
// that return (nil, nil), an error, or panic.
func c15Settings(b *impl.Binding, k int) []xsel.ContextApply {
	base := []xsel.ContextApply{xsel.WithNS("p", "urn:u")}
	switch k {
	case 0:
		return base
	case 1:
		return append(base, xsel.WithVariable("v", xsel.Number(3)), xsel.WithVariable("n", nil), xsel.WithVariable("ns", xsel.NodeSet{b.Root}),
			xsel.WithFunction("u", func(c xsel.Context, a ...xsel.Result) (xsel.Result, error) { return nil, nil }),
			xsel.WithFunction("e", func(c xsel.Context, a ...xsel.Result) (xsel.Result, error) { return nil, fmt.Errorf("user error") }),
			xsel.WithFunction("boom", func(c xsel.Context, a ...xsel.Result) (xsel.Result, error) { panic("user function panics") }))
	}
	return append(base, xsel.WithVariable("v", xsel.NodeSet{}), xsel.WithVariable("ns", xsel.NodeSet{b.Root, b.Root}), xsel.WithVariable("n", xsel.String("")),
		xsel.WithFunction("u", func(c xsel.Context, a ...xsel.Result) (xsel.Result, error) {
			return xsel.NodeSet{b.Root.Children()[0], b.Root}, nil
		}))
}

// c15One runs one input and returns "" or a description of the crash.
func c15One(kind string, input string, docs []*impl.Binding) (msg string) {
	defer func() {
		if r := recover(); r != nil {
			msg = fmt.Sprintf("PANIC escaped the API: %v", r)
		}
	}()
	switch kind {
	case "expr-tokens", "expr-bytes":
		g, err := xsel.BuildExpr(input)
		if err != nil {
			return ""
		}
		for di, b := range docs {
			for k := 0; k < 3; k++ {
				if kind == "expr-bytes" && k > 0 {
					break
				}
				r, err := xsel.Exec(b.Root, &g, c15Settings(b, k)...)
				if err == nil && r == nil {
					return fmt.Sprintf("Exec returned a nil result with a nil error (document %d, binding set %d)", di, k)
				}
				if err == nil {
					// the value must be usable
					_ = r.String()
					_ = r.Number()
					_ = r.Bool()
				}
			}
		}
	case "well-typed":
		g, err := xsel.BuildExpr(input)
		if err != nil {
			return ""
		}
		b := docs[1]
		r, err := xsel.Exec(b.Root, &g)
		if err == nil && r == nil {
			return "nil result with nil error"
		}
		if err != nil && strings.Contains(err.Error(), "xpath query panic") {
			return "well-typed query failed with an internal panic: " + err.Error()
		}
	default:
		var cur xsel.Cursor
		var err error
		switch kind {
		case "xml-bytes":
			cur, err = xsel.ReadXml(strings.NewReader(input))
		case "json-bytes":
			cur, err = xsel.ReadJson(strings.NewReader(input))
		case "html-tokens":
			cur, err = xsel.ReadHtml(strings.NewReader(input))
		}
		if err != nil {
			return ""
		}
		if cur == nil {
			return "reader returned a nil cursor with a nil error"
		}
		for _, q := range c15Queries {
			r, err := xsel.Exec(cur, q)
			if err == nil && r == nil {
				return "Exec returned a nil result with a nil error on the document read"
			}
			if err != nil && strings.Contains(err.Error(), "xpath query panic") {
				return "well-typed query failed with an internal panic on the document read: " + err.Error()
			}
			if err == nil {
				_ = r.String()
			}
		}
	}
	return ""
}

type c15Inner struct {
	S string `xsel:"."`
}
type c15UScalar struct {
	name string `xsel:"name()"`
}
type c15USlice struct {
	items []string `xsel:"*"`
}
type c15UStruct struct {
	inner c15Inner `xsel:"."`
}
type c15UPtr struct {
	p *c15Inner `xsel:"."`
	n *int      `xsel:"count(*)"`
}
type c15UMixed struct {
	A string       `xsel:"name()"`
	b int          `xsel:"count(*)"`
	C []c15UScalar `xsel:"*"`
}
type c15UNested struct {
	In  c15UScalar   `xsel:"."`
	Ptr *c15USlice   `xsel:"."`
	All []c15UStruct `xsel:"//*"`
}
type c15Embed struct {
	c15Inner
	c15UScalar
	X string `xsel:"name()"`
}
type c15EmbedPtr struct {
	*c15Inner
	X string `xsel:"name()"`
}

// c15StaticTargets: constructors of fresh targets with tagged unexported fields
// (scalar, slice, struct, pointer), at top level, nested, inside slice elements
// and embedded.
func c15StaticTargets() []func() interface{} {
	return []func() interface{}{
		func() interface{} { return &c15UScalar{} }, func() interface{} { return &c15USlice{} }, func() interface{} { return &c15UStruct{} }, func() interface{} { return &c15UPtr{} },
		func() interface{} { return &c15UMixed{} }, func() interface{} { return &c15UNested{} }, func() interface{} { return &c15Embed{} }, func() interface{} { return &c15EmbedPtr{} },
		func() interface{} { return &[]c15UScalar{} }, func() interface{} { return &[]*c15UPtr{} }, func() interface{} { return &[]c15UNested{} },
		func() interface{} { p := &c15UMixed{}; return &p }, func() interface{} { return c15UScalar{} }, func() interface{} { return []c15UScalar{} },
	}
}

// c15EncodingLabels is the catalogue of charset names tried in declarations.
func c15EncodingLabels() []string {
	base := []string{
		"UTF-8", "utf8", "UTF-16", "UTF-16LE", "UTF-16BE", "UTF-32", "UTF-32LE", "UTF-32BE", "UTF-7", "CESU-8", "SCSU", "BOCU-1", "UCS-2", "UCS-4", "ISO-10646-UCS-2", "ISO-10646-UCS-4", "UNICODE-1-1", "UNICODE-1-1-UTF-7",
		"US-ASCII", "ASCII", "ANSI_X3.4-1968", "ISO-8859-1", "latin1", "l1", "ISO_8859-1:1987", "ISO-8859-2", "ISO-8859-3", "ISO-8859-4", "ISO-8859-5", "ISO-8859-6", "ISO-8859-6-E", "ISO-8859-6-I", "ISO-8859-7", "ISO-8859-8", "ISO-8859-8-I", "ISO-8859-8-E", "ISO-8859-9", "ISO-8859-10", "ISO-8859-11", "ISO-8859-12", "ISO-8859-13", "ISO-8859-14", "ISO-8859-15", "ISO-8859-16",
		"windows-1250", "windows-1251", "windows-1252", "windows-1253", "windows-1254", "windows-1255", "windows-1256", "windows-1257", "windows-1258", "windows-874", "windows-31J", "cp1252", "cp437", "cp850", "cp866", "IBM037", "IBM273", "IBM437", "IBM500", "IBM850", "IBM852", "IBM855", "IBM858", "IBM860", "IBM862", "IBM863", "IBM865", "IBM866", "IBM1026", "IBM1047", "IBM1140", "EBCDIC-US", "EBCDIC-CP-US",
		"KOI8-R", "KOI8-U", "macintosh", "x-mac-cyrillic", "x-user-defined", "replacement", "TIS-620", "VISCII", "HP-ROMAN8", "DEC-MCS", "NATS-SEFI", "T.61-8bit", "JIS_X0201", "Adobe-Standard-Encoding",
		"Shift_JIS", "EUC-JP", "ISO-2022-JP", "ISO-2022-JP-2", "ISO-2022-KR", "ISO-2022-CN", "ISO-2022-CN-EXT", "EUC-KR", "EUC-TW", "GBK", "GB2312", "GB18030", "HZ-GB-2312", "Big5", "Big5-HKSCS", "KS_C_5601-1987", "csShiftJIS", "csUnicode", "csUTF8",
		"no-such-charset", "", " ", "utf-8 ", " utf-8", "UTF\u20118", "utf_8", "8", "x", "-", "\x00", "\xff", "&amp;", "<", "'", "a\"b", "UTF-8\x00ISO-8859-1",
	}
	out := append([]string{}, base...)
	for _, l := range base {
		if lo := strings.ToLower(l); lo != l {
			out = append(out, lo)
		}
	}
	out = append(out, strings.Repeat("u", 5000))
	return out
}

var c15Queries = func() []*xsel.Grammar {
	var out []*xsel.Grammar
	for _, e := range []string{"//node() | //@* | //namespace::*", "string(/)", "count(//*[last()]/ancestor::node())", "//*[1]/following::node()[1] | //text()/preceding::*[1]", "name(/*) = local-name(//*[last()])", "sum(//*) + string-length(//@*)"} {
		g := xsel.MustBuildExpr(e)
		out = append(out, &g)
	}
	return out
}()

type c15Case struct {
	Kind   string `json:"kind"`
	Input  string `json:"input"` // Go-quoted
	Detail string `json:"detail"`
}

// C15Worker is the child process: it enumerates one kind and prints
// violations as JSON lines; a progress file lets the parent name the chunk in
// which the process died.
func C15Worker(args []string) int {
	kindName, tier, progress := args[0], args[1], args[2]
	var kind c15Kind
	for _, k := range c15Kinds {
		if k.name == kindName {
			kind = k
		}
	}
	maxLen := kind.maxLen[0]
	if tier == "thorough" {
		maxLen = kind.maxLen[1]
	}
	alpha := c15Alphabet(kind)
	total, offs := c15Space(len(alpha), maxLen)
	var docs []*impl.Binding
	for k := 0; k < 2; k++ {
		b, err := impl.Bind(c08Doc(k))
		if err != nil {
			panic(err)
		}
		docs = append(docs, b)
	}
	const chunk = 1024
	nchunks := (total + chunk - 1) / chunk
	var found atomic.Int64
	var evals atomic.Int64
	var started atomic.Int64
	run.ParallelW(nchunks, func(w, ci int) {
		if found.Load() >= 5 {
			return
		}
		if n := started.Add(1); n%64 == 0 {
			os.WriteFile(progress, []byte(strconv.Itoa(ci)), 0o644)
		}
		// every worker gets its own documents (no sharing between goroutines)
		my := docs
		for idx := ci * chunk; idx < min((ci+1)*chunk, total); idx++ {
			input := strings.Join(c15Decode(alpha, idx, offs), map[bool]string{true: " ", false: ""}[kind.name == "expr-tokens" && idx%2 == 1])
			evals.Add(1)
			if msg := c15One(kind.name, input, my); msg != "" {
				found.Add(1)
				b, _ := json.Marshal(c15Case{Kind: kind.name, Input: strconv.Quote(input), Detail: msg})
				fmt.Println("VIOL " + string(b))
			}
		}
	})
	fmt.Printf("DONE %d %d\n", evals.Load(), total)
	return 0
}

// C15Deep is the child process for nesting-depth sweeps.
func C15Deep(args []string) int {
	what := args[0]
	n, _ := strconv.Atoi(args[1])
	b, _ := impl.Bind(c08Doc(1))
	try := func(expr string) {
		g, err := xsel.BuildExpr(expr)
		if err != nil {
			return
		}
		r, err := xsel.Exec(b.Root, &g)
		if err == nil && r == nil {
			fmt.Println("nil result with nil error")
			os.Exit(3)
		}
	}
	switch what {
	case "parens":
		try(strings.Repeat("(", n) + "1" + strings.Repeat(")", n))
	case "predicates":
		try("//*" + strings.Repeat("[*", n) + strings.Repeat("]", n))
	case "steps":
		try("/" + strings.Repeat("a/", n) + "a")
	case "unions":
		try(strings.Repeat("//a|", n) + "//b")
	case "negations":
		try(strings.Repeat("-", n) + "1")
	case "xml-depth":
		cur, err := xsel.ReadXml(strings.NewReader(strings.Repeat("<a>", n) + "x" + strings.Repeat("</a>", n)))
		if err == nil {
			for _, q := range c15Queries {
				if r, err := xsel.Exec(cur, q); err == nil && r == nil {
					os.Exit(3)
				}
			}
		}
	case "json-depth":
		cur, err := xsel.ReadJson(strings.NewReader(strings.Repeat("[", n) + "1" + strings.Repeat("]", n)))
		if err == nil {
			xsel.Exec(cur, c15Queries[0])
		}
	case "html-depth":
		cur, err := xsel.ReadHtml(strings.NewReader("<!doctype html>" + strings.Repeat("<div>", n) + "x"))
		if err == nil {
			xsel.Exec(cur, c15Queries[0])
		}
	case "wide-xml":
		cur, err := xsel.ReadXml(strings.NewReader("<r>" + strings.Repeat("<a/>", n) + "</r>"))
		if err == nil {
			xsel.Exec(cur, c15Queries[0])
		}
	}
	fmt.Println("OK")
	return 0
}

func C15(c *run.Check) {
	tmp, _ := os.MkdirTemp("", "xv-c15-")
	defer os.RemoveAll(tmp)
	for _, k := range c15Kinds {
		if c.TimeUp() {
			c.Exhaustive = false
			break
		}
		progress := filepath.Join(tmp, k.name+".progress")
		limit := "600"
		if !c.Quick() {
			limit = "1500"
		}
		cmd := exec.Command("timeout", limit, os.Args[0], "c15-worker", k.name, c.Tier, progress)
		var out, serr bytes.Buffer
		cmd.Stdout, cmd.Stderr = &out, &serr
		err := cmd.Run()
		done := false
		for _, line := range strings.Split(out.String(), "\n") {
			if strings.HasPrefix(line, "VIOL ") {
				var cs c15Case
				json.Unmarshal([]byte(line[5:]), &cs)
				c.Violation(cs, fmt.Sprintf("[%s] input %s: %s", cs.Kind, cs.Input, cs.Detail))
			}
			if strings.HasPrefix(line, "DONE ") {
				var ev, tot int64
				fmt.Sscanf(line, "DONE %d %d", &ev, &tot)
				c.Evaluations.Add(ev)
				c.Add("inputs_"+k.name, tot)
				done = true
			}
		}
		if ee, ok := err.(*exec.ExitError); ok && ee.ExitCode() == 124 {
			last, _ := os.ReadFile(progress)
			c.Violation(c15Case{Kind: k.name, Input: "chunk near " + string(last), Detail: "did not terminate"}, fmt.Sprintf("[%s] enumeration did not finish within %s s: some call does not terminate (last chunk announced: %s)", k.name, limit, last))
			continue
		}
		if err != nil || !done {
			last, _ := os.ReadFile(progress)
			msg := serr.String()
			if len(msg) > 600 {
				msg = msg[:600]
			}
			c.Violation(c15Case{Kind: k.name, Input: "chunk near " + string(last), Detail: "worker process died: " + msg}, fmt.Sprintf("[%s] the process enumerating inputs died (%v) near chunk %s: %s", k.name, err, last, msg))
		}
		c.Distinct(k.name)
	}
	// well-typed expressions never yield 'xpath query panic' (the C01-C08 universes)
	if c.Violations() == 0 {
		b, _ := impl.Bind(c08Doc(1))
		var exprs []string
		exprs = append(exprs, c01SingleSteps()...)
		exprs = append(exprs, c01Absolute()...)
		for _, a := range c08ASTs(true) {
			exprs = append(exprs, refxp.Render(a, refxp.RenderOpt{}))
		}
		for _, e := range exprs {
			g, _ := BuildImpl(e)
			if g == nil {
				continue
			}
			for _, n := range b.Doc.Nodes {
				c.Evaluations.Add(1)
				o := ExecImpl(b, b.ToCur[n], g, c08Env.ImplSettings(b))
				if o.Panic != "" || IsPanicErr(o) || o.Nil {
					c.Violation(c15Case{Kind: "well-typed", Input: strconv.Quote(e), Detail: o.String()}, fmt.Sprintf("[well-typed] %q from %s: %s", e, n.Describe(), o))
					break
				}
			}
		}
		c.Distinct("well-typed")
	}
	// every builtin with every argument tuple (arity 0-3) from a value alphabet:
	// a well-typed call never fails with an internal panic
	if c.Violations() == 0 {
		b, _ := impl.Bind(c08Doc(1))
		vals := []string{"''", "'a'", "'é'", "'ab'", "'😀é'", "' '", "0", "-1", "0.5", "(0 div 0)", "(1 div 0)", "(-1 div 0)", "1000000000000000000", "3", "//zz", "//b", "true()", "(//a/ancestor::*)"}
		fns := []string{"last", "position", "count", "local-name", "namespace-uri", "name", "string", "concat", "starts-with", "contains", "substring-before", "substring-after", "substring",
			"string-length", "normalize-space", "translate", "boolean", "not", "true", "false", "lang", "number", "sum", "floor", "ceiling", "round"}
		type fj struct {
			f    string
			args []string
		}
		var jobs []fj
		for _, f := range fns {
			jobs = append(jobs, fj{f, nil})
			for _, a := range vals {
				jobs = append(jobs, fj{f, []string{a}})
				for _, b2 := range vals {
					jobs = append(jobs, fj{f, []string{a, b2}})
					if f == "substring" || f == "translate" || f == "concat" {
						for _, c3 := range vals {
							jobs = append(jobs, fj{f, []string{a, b2, c3}})
						}
					}
				}
			}
		}
		var bad atomic.Int64
		run.ParallelW(len(jobs), func(w, i int) {
			if bad.Load() > 3 {
				return
			}
			e := jobs[i].f + "(" + strings.Join(jobs[i].args, ", ") + ")"
			g, _ := BuildImpl(e)
			if g == nil {
				return
			}
			bb := b
			if w > 0 {
				bb, _ = impl.Bind(c08Doc(1))
			}
			c.Evaluations.Add(1)
			o := ExecImpl(bb, bb.Root, g, nil)
			if o.Panic != "" || IsPanicErr(o) || o.Nil {
				bad.Add(1)
				c.Violation(c15Case{Kind: "well-typed", Input: strconv.Quote(e), Detail: o.String()}, fmt.Sprintf("[builtin call] %s: %s", e, o))
			}
		})
		c.Distinct("builtin-calls")
	}
	// lang() with every argument x every xml:lang value up to length 3 over an
	// alphabet with characters whose lower/upper-case forms change byte length
	// (U+023A, U+023E, U+0130, U+212A, U+1E9E): case folding must never index
	// past a string (seed-C15-p)
	if c.Violations() == 0 {
		alpha := []string{"a", "B", "-", "\u023a", "\u023e", "\u0130", "\u212a", "\u1e9e", "\u00e9"}
		strs := []string{""}
		for lo, l := 0, 0; l < 3; l++ {
			hi := len(strs)
			for _, pre := range strs[lo:hi] {
				for _, a := range alpha {
					strs = append(strs, pre+a)
				}
			}
			lo = hi
		}
		roots := make([]store.Cursor, len(strs))
		for i, v := range strs {
			roots[i], _ = xsel.ReadXml(strings.NewReader(`<r xml:lang="` + v + `"><a/></r>`))
		}
		var bad atomic.Int64
		run.ParallelW(len(strs), func(w, i int) {
			if bad.Load() > 3 {
				return
			}
			e := "boolean(//a[lang('" + strs[i] + "')])"
			g, _ := BuildImpl(e)
			if g == nil {
				return
			}
			for j, root := range roots {
				if root == nil {
					continue
				}
				c.Evaluations.Add(1)
				o := ExecImpl(nil, root, g, nil)
				if o.Panic != "" || IsPanicErr(o) || o.Nil {
					bad.Add(1)
					c.Violation(c15Case{Kind: "well-typed", Input: strconv.Quote(e) + " on xml:lang=" + strconv.Quote(strs[j]), Detail: o.String()}, fmt.Sprintf("[lang case folding] %s on xml:lang=%q: %s", e, strs[j], o))
					return
				}
			}
		})
		c.Distinct("lang-case-folding")
	}
	// Unmarshal: every field type x tag as *S, **S, *[]S, *[]T, *T and a few
	// ill-shaped targets x results of every shape (empty / 1 / 2 nodes, string,
	// number, boolean): never a panic, never (nil error and untouched) judged
	// here - only "returns" (C19 decides the values)
	if c.Violations() == 0 {
		b, _ := impl.Bind(c08Doc(1))
		var elems xsel.NodeSet
		for _, n := range b.Doc.Nodes {
			if n.Kind == adoc.Elem {
				elems = append(elems, b.ToCur[n])
			}
		}
		results := []xsel.Result{xsel.NodeSet{}, xsel.NodeSet{elems[0]}, xsel.NodeSet{elems[1], elems[0]}, elems, xsel.String("s"), xsel.Number(1.5), xsel.Bool(true)}
		rnames := []string{"empty node-set", "one node", "two nodes (reverse order)", "all elements", "string", "number", "boolean"}
		fts := c19FieldTypes()
		tags := c19Tags
		if c.Quick() {
			tags = tags[:12]
		}
		run.ParallelW(len(fts)*len(tags), func(w, i int) {
			if c.Violations() > 0 {
				return
			}
			ft, tag := fts[i/len(tags)], tags[i%len(tags)]
			st := reflect.StructOf([]reflect.StructField{{Name: "F", Type: ft, Tag: reflect.StructTag(`xsel:"` + tag + `"`)}, {Name: "G", Type: reflect.TypeOf(0)}})
			mk := []func() interface{}{
				func() interface{} { return reflect.New(st).Interface() },
				func() interface{} {
					p := reflect.New(st)
					pp := reflect.New(p.Type())
					pp.Elem().Set(p)
					return pp.Interface()
				},
				func() interface{} { return reflect.New(reflect.SliceOf(st)).Interface() },
				func() interface{} { return reflect.New(reflect.SliceOf(ft)).Interface() },
				func() interface{} { return reflect.New(ft).Interface() },
				func() interface{} { return reflect.New(reflect.PointerTo(st)).Interface() },  // **S with nil inner pointer
				func() interface{} { return reflect.Zero(reflect.PointerTo(st)).Interface() }, // typed nil *S
				func() interface{} { return reflect.New(st).Elem().Interface() },              // non-pointer S
			}
			for ri, res := range results {
				for ti, m := range mk {
					c.Evaluations.Add(1)
					if _, pan := callUnmarshal(res, m(), c19Settings(b)); pan != "" {
						c.Violation(c15Case{Kind: "unmarshal", Input: fmt.Sprintf("field type %v, tag %q, target shape %d, result %s", ft, tag, ti, rnames[ri]), Detail: pan},
							fmt.Sprintf("[unmarshal] struct{F %v `xsel:%q`} (target shape %d) from %s: panic: %s", ft, tag, ti, rnames[ri], pan))
						return
					}
				}
			}
		})
		// statically declared targets (reflect.StructOf cannot make them): tagged
		// unexported fields of every shape, embedded structs, named field types
		for ti, mk := range c15StaticTargets() {
			for ri, res := range results {
				c.Evaluations.Add(1)
				if _, pan := callUnmarshal(res, mk(), c19Settings(b)); pan != "" {
					c.Violation(c15Case{Kind: "unmarshal", Input: fmt.Sprintf("static target %d (%T), result %s", ti, mk(), rnames[ri]), Detail: pan},
						fmt.Sprintf("[unmarshal] target %T from %s: panic: %s", mk(), rnames[ri], pan))
					break
				}
			}
		}
		c.Distinct("unmarshal-sweep")
	}
	// encoding labels: every label of a catalogue of charset names (supported,
	// registered but unsupported, legacy multi-byte, stateful, unknown, odd
	// spellings) in the XML declaration and in an HTML <meta charset>, over an
	// ASCII body and bodies with high / invalid bytes
	if c.Violations() == 0 {
		bodies := []string{"<a x='1'>t</a>", "<a>caf\xe9 \xa4</a>", "<a>\xff\xfe\x00<\x00</a>", "<a>\xc3\xa9\xe2\x82\xac</a>", ""}
		type lj struct{ label, body string }
		var jobs []lj
		for _, l := range c15EncodingLabels() {
			for _, b := range bodies {
				jobs = append(jobs, lj{l, b})
			}
		}
		run.ParallelW(len(jobs), func(_, i int) {
			if c.Violations() > 0 {
				return
			}
			j := jobs[i]
			inputs := [][2]string{
				{"xml-bytes", `<?xml version="1.0" encoding="` + j.label + `"?>` + j.body},
				{"xml-bytes", `<?xml version='1.0' encoding='` + j.label + `' standalone='yes'?>` + "\n" + j.body},
				{"html-tokens", `<!doctype html><meta charset="` + j.label + `"><p>` + j.body},
				{"html-tokens", `<!doctype html><meta http-equiv="Content-Type" content="text/html; charset=` + j.label + `"><p>` + j.body},
			}
			for _, in := range inputs {
				c.Evaluations.Add(1)
				if msg := c15One(in[0], in[1], nil); msg != "" {
					c.Violation(c15Case{Kind: in[0], Input: strconv.Quote(in[1]), Detail: msg}, fmt.Sprintf("[encoding label] %s %q: %s", in[0], in[1], msg))
					return
				}
			}
		})
		c.Set("encoding_labels", len(c15EncodingLabels()))
		c.Distinct("encoding-labels")
	}
	// nesting depth sweeps in subprocesses (a stack overflow kills the process)
	if c.Violations() == 0 {
		depths := []int{10, 100, 400}
		if !c.Quick() {
			depths = append(depths, 2000, 20000, 100000)
		}
		for _, what := range []string{"parens", "predicates", "steps", "unions", "negations", "xml-depth", "json-depth", "html-depth", "wide-xml"} {
			for _, n := range depths {
				if (what == "parens" || what == "predicates" || what == "unions" || what == "negations" || what == "steps") && n > 2000 {
					continue // the GLL parser is super-linear; larger sizes only for documents
				}
				cmd := exec.Command("timeout", "60", os.Args[0], "c15-deep", what, fmt.Sprint(n))
				out, err := cmd.CombinedOutput()
				c.Evaluations.Add(1)
				if err != nil {
					if ee, ok := err.(*exec.ExitError); ok && ee.ExitCode() == 124 {
						c.Set("deep_"+what+"_timeout_at", n)
						break // termination within the time budget is not judged beyond this size
					}
					msg := string(out)
					if len(msg) > 400 {
						msg = msg[:400]
					}
					c.Violation(c15Case{Kind: "deep-" + what, Input: fmt.Sprint(n), Detail: msg}, fmt.Sprintf("[deep] %s at depth %d: process failed (%v): %s", what, n, err, msg))
					break
				}
				c.Distinct(fmt.Sprint(what, n))
			}
		}
	}
	c.Sample(map[string]string{"kind": "xml-bytes", "input": "<a x=\"&#"})
	c.Sample(map[string]string{"kind": "expr-tokens", "input": "u() | $n [ boom() ]"})
	c.Sample(map[string]string{"kind": "json-bytes", "input": "{\"a\":[1e"})
	c.Rule = "ALL strings up to a length bound over five alphabets, in worker subprocesses: expression token strings (C08 alphabet + nil variable, user functions returning (nil,nil) / an error / panicking, huge numbers) built AND executed on 2 documents under 3 binding sets; expression byte strings (incl. invalid UTF-8, NUL, and valid 2-, 4- and 9-byte characters/names); XML, JSON byte strings and HTML token strings through ReadXml/ReadJson/ReadHtml followed by 6 queries on whatever tree comes back; the well-typed C01/C08 expression universes from every node must never give an 'xpath query panic' error; Unmarshal of 7 result shapes (empty/1/2/all nodes, string, number, boolean) into 8 target shapes (*S, **S, *[]S, *[]T, *T, **S with nil inner pointer, typed nil, non-pointer) for 50 field types (incl. defined types such as a named int64, float64, string, []string) x 12/30 tag expressions, plus 14 statically declared targets with tagged unexported fields of every shape, embedded structs and slices of such structs; every label of a catalogue of charset names (supported, registered but unsupported, stateful, unknown, odd spellings) in XML declarations and HTML meta elements over 5 bodies; nesting-depth sweeps (parentheses, predicates, steps, unions, expression nesting up to 400/2000, document depth/width up to 400/100000) in subprocesses. Oracle: the call returns, with (non-nil value, nil) or (_, non-nil error); no panic escapes; the process survives"
	c.Assume("bounded exhaustive, not coverage-guided: crashing inputs whose shortest form is longer than the bound are out of reach; the values Unmarshal produces are decided by C19")
}

func init() {
	Registry["C15"] = Prop{"exploration", C15}
	Sub["c15-worker"] = C15Worker
	Sub["c15-deep"] = C15Deep
	replayers["C15"] = func(raw json.RawMessage) string {
		var cs c15Case
		json.Unmarshal(raw, &cs)
		input, err := strconv.Unquote(cs.Input)
		if err != nil {
			return "re-run ./check C15 quick: " + cs.Detail
		}
		var docs []*impl.Binding
		for k := 0; k < 2; k++ {
			b, _ := impl.Bind(c08Doc(k))
			docs = append(docs, b)
		}
		return c15One(cs.Kind, input, docs)
	}
}
