package props

import (
	"encoding/json"
	"fmt"
	"io"
	"os"
	"os/exec"
	"strings"
	"sync"
	"time"

	"github.com/ChrisTrenkamp/xsel"
	"github.com/ChrisTrenkamp/xsel/node"
	"github.com/ChrisTrenkamp/xsel/parser"
	"github.com/ChrisTrenkamp/xsel/store"

	"xv/run"
	"xv/sched"
)

// ---- C14, worker bodies: concurrent document reads --------------------------------
//
// The workers of `xsel -c N` each read their own file with the library's
// parsers and build their own tree, all at the same time. Under the CLI
// exploration a whole read is one step; here the same reads run on the
// library directly with a scheduling point at every Pull of the parser and at
// every Read of the input (small chunks), so that the reads of 2-3 documents
// are interleaved in every way up to the preemption bound. Every tree built
// must be the tree built when the document is read alone.

type c14ParseDoc struct {
	Kind string `json:"kind"` // xml | html | json
	Text string `json:"text"`
}

type c14ParseScenario struct {
	Name string        `json:"name"`
	Docs []c14ParseDoc `json:"docs"`
}

var c14ParseScenarios = []c14ParseScenario{
	{"two XML documents with attributes", []c14ParseDoc{
		{"xml", `<a x="1" y="2"><b z="3"/>t<b w="4" v="5"/></a>`},
		{"xml", `<c p="6"><d q="7" r="8" s="9"/><!--k--></c>`}}},
	{"two XML documents with namespace declarations", []c14ParseDoc{
		{"xml", `<p:a xmlns:p="u" p:x="1"><b xmlns="v" y="2"/></p:a>`},
		{"xml", `<a xmlns="w" xmlns:q="z"><q:b q:y="3"/><?pi v?></a>`}}},
	{"three XML documents", []c14ParseDoc{
		{"xml", `<a x="1"><b y="2"/></a>`},
		{"xml", `<c p="3" q="4"/>`},
		{"xml", `<e>t<f r="5"/></e>`}}},
	{"the same XML text twice", []c14ParseDoc{
		{"xml", `<a x="1" y="2"><b z="3">t</b></a>`},
		{"xml", `<a x="1" y="2"><b z="3">t</b></a>`}}},
	{"two HTML documents", []c14ParseDoc{
		{"html", `<html><body class="a" id="b"><p title="c">t</p></body></html>`},
		{"html", `<html><head><meta charset="utf-8"></head><body><br data-x="1"></body></html>`}}},
	{"two JSON documents", []c14ParseDoc{
		{"json", `{"a":[1,"x",true],"b":{"c":null}}`},
		{"json", `[{"d":2.5},"e",[false]]`}}},
	{"XML, HTML and JSON at once", []c14ParseDoc{
		{"xml", `<a x="1"><b y="2" z="3"/></a>`},
		{"html", `<p id="i" class="c">t</p>`},
		{"json", `{"k":["v",1]}`}}},
}

// yreader hands the input out in small chunks with a scheduling point per Read.
type yreader struct {
	data []byte
	s    *sched.Sched
}

func (r *yreader) Read(p []byte) (int, error) {
	if r.s != nil {
		r.s.Point("Read")
	}
	if len(r.data) == 0 {
		return 0, io.EOF
	}
	n := 12
	if n > len(r.data) {
		n = len(r.data)
	}
	if n > len(p) {
		n = len(p)
	}
	copy(p, r.data[:n])
	r.data = r.data[n:]
	return n, nil
}

// yparser is the library's parser with a scheduling point at every Pull.
type yparser struct {
	inner parser.Parser
	s     *sched.Sched
}

func (p *yparser) Pull() (node.Node, bool, error) {
	if p.s != nil {
		p.s.Point("Pull")
	}
	return p.inner.Pull()
}

// c14ParseOne reads one document and renders the tree it built.
func c14ParseOne(d c14ParseDoc, s *sched.Sched) (out string) {
	defer func() {
		if r := recover(); r != nil {
			out = fmt.Sprint("PANIC ", r)
		}
	}()
	in := &yreader{data: []byte(d.Text), s: s}
	var p parser.Parser
	switch d.Kind {
	case "xml":
		p = parser.ReadXml(in)
	case "html":
		hp, err := parser.ReadHtml(in)
		if err != nil {
			return "error " + err.Error()
		}
		p = hp
	default:
		p = parser.ReadJson(in)
	}
	root, err := store.CreateInMemory(&yparser{inner: p, s: s})
	if err != nil {
		return "error " + err.Error()
	}
	return c14RenderTree(root)
}

// c14RenderTree renders a built tree completely: every node with its kind,
// name, value and position, namespaces and attributes before children.
func c14RenderTree(root store.Cursor) string {
	var sb strings.Builder
	var walk func(c store.Cursor, depth int)
	walk = func(c store.Cursor, depth int) {
		fmt.Fprintf(&sb, "%d:%d:", depth, c.Pos())
		switch n := c.Node().(type) {
		case node.Attribute:
			fmt.Fprintf(&sb, "A{%s}%s=%q", n.Space(), n.Local(), n.AttributeValue())
		case node.Element:
			fmt.Fprintf(&sb, "E{%s}%s", n.Space(), n.Local())
		case node.Namespace:
			fmt.Fprintf(&sb, "N%s=%q", n.Prefix(), n.NamespaceValue())
		case node.CharData:
			fmt.Fprintf(&sb, "T%q", n.CharDataValue())
		case node.Comment:
			fmt.Fprintf(&sb, "C%q", n.CommentValue())
		case node.ProcInst:
			fmt.Fprintf(&sb, "P%s %q", n.Target(), n.ProcInstValue())
		default:
			sb.WriteString("R")
		}
		sb.WriteString(";")
		for _, k := range c.Namespaces() {
			walk(k, depth+1)
		}
		for _, k := range c.Attributes() {
			walk(k, depth+1)
		}
		for _, k := range c.Children() {
			walk(k, depth+1)
		}
	}
	walk(root, 0)
	return sb.String()
}

type c14ParseReplay struct {
	Kind     string           `json:"kind"` // "parse"
	Scenario c14ParseScenario `json:"scenario"`
	Schedule []int            `json:"schedule"`
	Detail   string           `json:"detail"`
}

func c14ParseSerial(sc c14ParseScenario) []string {
	out := make([]string, len(sc.Docs))
	for i, d := range sc.Docs {
		out[i] = c14ParseOne(d, nil)
	}
	return out
}

func c14ParseRunOnce(sc c14ParseScenario, serial []string, prefix []int) ([]sched.Point, string, string) {
	s := sched.New(prefix)
	results := make([]string, len(sc.Docs))
	for i, d := range sc.Docs {
		i, d := i, d
		s.Go(fmt.Sprint("R", i), func() {
			s.Point("start")
			results[i] = c14ParseOne(d, s)
		})
	}
	if msg := s.Run(); msg != "" {
		return s.Points, msg, ""
	}
	if s.Diverged != "" {
		return s.Points, "HARNESS: schedule prefix diverged: " + s.Diverged, ""
	}
	if s.Deadlock {
		return s.Points, "deadlock", ""
	}
	if s.Truncated {
		return s.Points[:min(len(s.Points), 600)], fmt.Sprintf("the reads had not finished after %d scheduling points under this schedule: a read does not terminate when interleaved with the others", s.MaxPoints), ""
	}
	for i := range results {
		if results[i] != serial[i] {
			return s.Points, fmt.Sprintf("document %d (%s %s) read while the other documents were being read gave the tree %s but %s when read alone", i, sc.Docs[i].Kind, sc.Docs[i].Text, results[i], serial[i]), ""
		}
	}
	return s.Points, "", fmt.Sprint(results)
}

// c14ParseResult is what one scenario process reports.
type c14ParseResult struct {
	Problem    string  `json:"problem,omitempty"` // harness-side: nothing can be concluded
	Executions []int64 `json:"executions"`        // per bound 0..
	Violation  string  `json:"violation,omitempty"`
	Schedule   []int   `json:"schedule,omitempty"`
	Capped     bool    `json:"capped,omitempty"`
	MaxPoints  int     `json:"max_points"`
}

// c14ParseExplore explores one scenario; it must have the process to itself:
// state shared between the library's parsers would otherwise be disturbed by
// the threads of other scenarios, which no recorded schedule accounts for.
func c14ParseExplore(sc c14ParseScenario, bound int, capS float64) c14ParseResult {
	var res c14ParseResult
	serial := c14ParseSerial(sc)
	if again := c14ParseSerial(sc); fmt.Sprint(again) != fmt.Sprint(serial) {
		// reading the same text twice, alone, gives different trees: nothing to
		// compare concurrent reads with (C13 owns that question)
		res.Problem = "two serial reads of the same documents built different trees; schedule enumeration skipped"
		return res
	}
	stop := time.Now().Add(time.Duration(capS * float64(time.Second)))
	ex := &sched.Explorer{Bound: bound, Stop: func() bool { return time.Now().After(stop) }}
	ex.Exec = func(prefix []int) ([]sched.Point, string) {
		pts, verdict, _ := c14ParseRunOnce(sc, serial, prefix)
		if len(pts) > res.MaxPoints {
			res.MaxPoints = len(pts)
		}
		return pts, verdict
	}
	for b := 0; b <= bound && ex.Violation == "" && !ex.Capped; b++ {
		ex.Bound = b
		ex.Executions = 0
		ex.Explore()
		res.Executions = append(res.Executions, int64(ex.Executions))
	}
	res.Capped = ex.Capped || time.Now().After(stop)
	if strings.HasPrefix(ex.Violation, "HARNESS:") {
		res.Problem = ex.Violation
		return res
	}
	if ex.Violation != "" {
		// believed only if it reproduces from its recorded schedule, five times
		for k := 0; k < 5; k++ {
			if _, again, _ := c14ParseRunOnce(sc, serial, ex.Schedule); again == "" {
				res.Problem = "a verdict did not reproduce from its recorded schedule and is not reported: " + ex.Violation
				return res
			}
		}
		res.Violation, res.Schedule = ex.Violation, ex.Schedule
	}
	return res
}

func c14Parse(c *run.Check) {
	bound, capS := 3, 240.0
	if !c.Quick() {
		bound, capS = 4, 1500.0
	}
	var mu sync.Mutex
	run.ParallelW(len(c14ParseScenarios), func(w, i int) {
		sc := c14ParseScenarios[i]
		var res c14ParseResult
		out := ""
		for attempt := 0; attempt < 3; attempt++ {
			o, _ := exec.Command(os.Args[0], "c14-reads-one", fmt.Sprint(i), fmt.Sprint(bound), fmt.Sprint(capS)).CombinedOutput()
			out = string(o)
			if k := strings.LastIndex(out, "RES "); k >= 0 && json.Unmarshal([]byte(strings.TrimSpace(out[k+4:])), &res) == nil {
				out = ""
				break
			}
			if strings.Contains(out, "goroutine ") {
				break // the child ran and died
			}
			time.Sleep(time.Duration(attempt+1) * 300 * time.Millisecond)
		}
		mu.Lock()
		defer mu.Unlock()
		if out != "" {
			if len(out) > 600 {
				out = out[:600]
			}
			if strings.Contains(out, "goroutine ") && strings.Contains(out, "ChrisTrenkamp/xsel") {
				c.Violation(c14ParseReplay{Kind: "parse", Scenario: sc, Detail: "process died"}, fmt.Sprintf("concurrent reads %q: the process died inside the library: %s", sc.Name, out))
				return
			}
			c.Set(fmt.Sprintf("read_scenario_%d_exploration_problem", i), "scenario process gave no result: "+out)
			c.Exhaustive = false
			return
		}
		for b, n := range res.Executions {
			c.Set(fmt.Sprintf("read_scenario_%d_schedules_bound_%d", i, b), n)
			c.Transitions.Add(n)
			c.Evaluations.Add(n)
			c.Traces.Add(n)
		}
		if res.Problem != "" {
			c.Set(fmt.Sprintf("read_scenario_%d_exploration_problem", i), res.Problem)
			c.Exhaustive = false
			fmt.Println("note:", res.Problem)
			return
		}
		if res.Violation != "" {
			c.Violation(c14ParseReplay{Kind: "parse", Scenario: sc, Schedule: res.Schedule, Detail: res.Violation}, fmt.Sprintf("concurrent reads %q, schedule %v: %s", sc.Name, compactSchedule(res.Schedule), res.Violation))
			return
		}
		if res.Capped {
			c.Set(fmt.Sprintf("read_scenario_%d_capped", i), true)
			c.Exhaustive = false
		}
		c.States.Add(int64(res.MaxPoints))
		c.Distinct("reads: " + sc.Name)
	})
	c.Set("read_scenarios", len(c14ParseScenarios))
}

// c14ParseRace is the free-running counterpart (race build): the scenario
// documents, made longer, read by real goroutines through the public readers.
func c14ParseRace() string {
	long := func(d c14ParseDoc, k int) (string, func(io.Reader) (xsel.Cursor, error)) {
		switch d.Kind {
		case "xml":
			inner := strings.Repeat(d.Text, 40)
			return fmt.Sprintf(`<top n="%d">%s</top>`, k, inner), func(r io.Reader) (xsel.Cursor, error) { return xsel.ReadXml(r) }
		case "html":
			return strings.Repeat(d.Text, 40), xsel.ReadHtml
		}
		return "[" + strings.TrimSuffix(strings.Repeat(d.Text+",", 40), ",") + "]", xsel.ReadJson
	}
	read := func(text string, f func(io.Reader) (xsel.Cursor, error)) string {
		cur, err := f(strings.NewReader(text))
		if err != nil {
			return "error " + err.Error()
		}
		return c14RenderTree(cur)
	}
	for round := 0; round < 10; round++ {
		for _, sc := range c14ParseScenarios {
			n := len(sc.Docs) * 3
			texts := make([]string, n)
			fns := make([]func(io.Reader) (xsel.Cursor, error), n)
			serial := make([]string, n)
			for k := 0; k < n; k++ {
				texts[k], fns[k] = long(sc.Docs[k%len(sc.Docs)], k)
				serial[k] = read(texts[k], fns[k])
			}
			got := make([]string, n)
			var wg sync.WaitGroup
			for k := 0; k < n; k++ {
				k := k
				wg.Add(1)
				go func() {
					defer wg.Done()
					got[k] = read(texts[k], fns[k])
				}()
			}
			wg.Wait()
			for k := range got {
				if got[k] != serial[k] {
					return fmt.Sprintf("concurrent reads %q: document %d gave a different tree than when read alone", sc.Name, k)
				}
			}
		}
	}
	return ""
}

func c14ParseReplayRun(raw json.RawMessage) string {
	var r c14ParseReplay
	json.Unmarshal(raw, &r)
	_, verdict, _ := c14ParseRunOnce(r.Scenario, c14ParseSerial(r.Scenario), r.Schedule)
	return verdict
}

func init() {
	// `xv c14-reads-one <scenario> <bound> <cap seconds>`: one scenario, alone in its process
	Sub["c14-reads-one"] = func(args []string) int {
		var i, bound int
		var capS float64
		fmt.Sscan(args[0], &i)
		fmt.Sscan(args[1], &bound)
		fmt.Sscan(args[2], &capS)
		res := c14ParseExplore(c14ParseScenarios[i], bound, capS)
		j, _ := json.Marshal(res)
		fmt.Println("RES " + string(j))
		return 0
	}
	// `xv c14-reads`: the concurrent-read scenarios alone (diagnostics)
	Sub["c14-reads"] = func(args []string) int {
		bad := 0
		for _, sc := range c14ParseScenarios {
			serial := c14ParseSerial(sc)
			bound := 2
			if len(args) > 0 {
				fmt.Sscan(args[0], &bound)
			}
			ex := &sched.Explorer{Bound: bound}
			ex.Exec = func(prefix []int) ([]sched.Point, string) {
				pts, verdict, _ := c14ParseRunOnce(sc, serial, prefix)
				return pts, verdict
			}
			ex.Explore()
			fmt.Printf("%-50s schedules(bound %d)=%d verdict=%q\n", sc.Name, bound, ex.Executions, ex.Violation)
			if ex.Violation != "" {
				bad = 1
			}
		}
		return bad
	}
}
