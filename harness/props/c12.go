package props

import (
	"encoding/json"
	"fmt"
	"strings"

	"xv/adoc"
	"xv/run"
)

// ---- C12: node functions (name, local-name, namespace-uri, count, lang) ----------

var c12Langs = []string{"en", "EN", "en-US", "en-us", "e", "eng", "zh", "zh-TW", "zh-Hant-TW", "x-priv", "de", "", "en-", "fr-CA", "EN-gb", "zh-Hant", "en-Latn-US-x-private", "en-Latn", "en-latn-us-x"}

func c12NameExprs() []string {
	var out []string
	for _, f := range []string{"name", "local-name", "namespace-uri"} {
		out = append(out, f+"()", f+"(.)", f+"(..)", f+"(ancestor::*)", f+"(ancestor-or-self::node())", f+"(preceding::node())", f+"(preceding-sibling::node())", f+"(/none)", f+"(@*)",
			f+"(namespace::*)", f+"(following::node())", f+"(//@*)", f+"(//namespace::*)", f+"(//processing-instruction())", f+"(//comment())", f+"(//text())", f+"(/)", f+"(/*)", f+"(*)", f+"(../@*)",
			f+"(namespace::* | @*)", f+"((namespace::* | @*)[2])", f+"((namespace::* | @*)[last()])", f+"(//*/namespace::*[last()] | //*/@*)", f+"(@* | namespace::*[last()])",
			f+"(1)", f+"('a')", f+"(true())", f+"(., .)", "string-length("+f+"())", f+"(//*[last()])", f+"(//*[2] | //*[1])")
	}
	// a caller-supplied node-set that is neither ascending nor descending
	out = append(out, "name($u)", "local-name($u)", "namespace-uri($u)", "string($u)", "name($u | $u)", "count($u)", "name($d)", "local-name($d)")
	out = append(out, "count(.)", "count(/)", "count(//node())", "count(@*)", "count(namespace::*)", "count(ancestor::node())", "count(/none)", "count(1)", "count('a')", "count(true())", "count()", "count(., .)",
		"count(//*) + count(//@*)", "count(. | ..)", "name() = local-name()", "namespace-uri() = ''", "count(//*[name() = 'a'])", "count(//*[local-name() = 'a'])", "count(//@*[namespace-uri() != ''])")
	return out
}

// c12LangDocs builds a/b/c chains with xml:lang placements.
func c12LangDocs() []*adoc.Doc {
	var docs []*adoc.Doc
	mk := func(la, lb *string) *adoc.Doc {
		d := adoc.NewDoc()
		c := adoc.E("c", adoc.T("t"))
		c.Add(adoc.A("y", "2"))
		b := adoc.E("b", adoc.C("k"), c, adoc.P("t", "d"))
		b.Add(adoc.A("x", "1"))
		if lb != nil {
			b.Add(adoc.ANS(adoc.XMLNS, "xml", "lang", *lb))
		}
		a := adoc.E("a", adoc.T("u"), b, adoc.E("d"))
		a.Declare("p", adoc.URI_U)
		if la != nil {
			a.Add(adoc.ANS(adoc.XMLNS, "xml", "lang", *la))
		}
		d.Root.Add(a)
		d.Root.Add(adoc.C("top"))
		return d.Finish()
	}
	docs = append(docs, mk(nil, nil))
	for i := range c12Langs {
		v := c12Langs[i]
		docs = append(docs, mk(&v, nil), mk(nil, &v))
	}
	for i := range c12Langs {
		for j := range c12Langs {
			if (i+j)%3 == 0 {
				va, vb := c12Langs[i], c12Langs[j]
				docs = append(docs, mk(&va, &vb))
			}
		}
	}
	// a plain attribute called lang in no namespace / another namespace must not count
	d := adoc.NewDoc()
	e := adoc.E("a", adoc.E("b"))
	e.Add(adoc.A("lang", "en"))
	e.Add(adoc.ANS(adoc.URI_U, "p", "lang", "en"))
	e.Declare("p", adoc.URI_U)
	d.Root.Add(e)
	docs = append(docs, d.Finish())
	// every ordered arrangement of {lang, p:lang, xml:lang} subsets on an element
	// (the XHTML idiom lang="en" xml:lang="en" in either order), below an
	// ancestor with / without its own xml:lang
	mkAttr := []func() *adoc.Node{
		func() *adoc.Node { return adoc.A("lang", "fr") },
		func() *adoc.Node { return adoc.ANS(adoc.URI_U, "p", "lang", "zh") },
		func() *adoc.Node { return adoc.ANS(adoc.XMLNS, "xml", "lang", "en") },
	}
	var arr [][]int
	var rec func(cur []int, used int)
	rec = func(cur []int, used int) {
		arr = append(arr, append([]int{}, cur...))
		for i := 0; i < 3; i++ {
			if used&(1<<i) == 0 {
				rec(append(cur, i), used|1<<i)
			}
		}
	}
	rec(nil, 0)
	for _, order := range arr {
		for anc := 0; anc < 2; anc++ {
			d := adoc.NewDoc()
			b := adoc.E("b", adoc.T("t"), adoc.E("c"))
			for _, i := range order {
				b.Add(mkAttr[i]())
			}
			a := adoc.E("a", b)
			a.Declare("p", adoc.URI_U)
			if anc == 1 {
				a.Add(adoc.A("lang", "en"))
				a.Add(adoc.ANS(adoc.XMLNS, "xml", "lang", "de"))
			}
			d.Root.Add(a)
			docs = append(docs, d.Finish())
		}
	}
	return docs
}

func C12(c *run.Check) {
	defer finishTriage()
	n := 3
	if !c.Quick() {
		n = 4
	}
	shapes := c01Shapes(n)
	type job struct {
		f    []*adoc.Tm
		deco int
	}
	var jobs []job
	for _, f := range shapes {
		for _, dc := range []int{adoc.D0, adoc.D1, adoc.D2, adoc.D3, adoc.D4, adoc.D5} {
			jobs = append(jobs, job{f, dc})
		}
	}
	names := mustParse(c12NameExprs())
	var langT []string
	for _, l := range c12Langs {
		langT = append(langT, "lang('"+l+"')", "count(//node()[lang('"+l+"')])", "count(//@*[lang('"+l+"')])")
	}
	langT = append(langT, "lang(1)", "lang(@x)", "lang()", "lang('en','en')", "lang(ancestor-or-self::*/@xml:lang)")
	langs := mustParse(langT)
	for _, l := range [][]refExpr{names, langs} {
		for _, e := range l {
			if e.Err != nil {
				fmt.Println("harness: reference parser rejects", e.Text, e.Err)
			}
		}
	}
	env := EnvSpec{NS: map[string]string{"p": adoc.URI_U, "xml": adoc.XMLNS}}
	r := newXRunner(c, "C12", env)
	r.envFor = func(d *adoc.Doc) EnvSpec {
		// $u: all nodes (any kind) ordered middle, last, first, rest; $d: descending
		e := env
		var all []string
		for _, n := range d.Nodes {
			if n.Kind != adoc.Root {
				all = append(all, n.Path())
			}
		}
		var u, dsc []string
		if len(all) >= 3 {
			m := len(all) / 2
			u = append(u, all[m], all[len(all)-1], all[0])
			for i, p := range all {
				if i != m && i != len(all)-1 && i != 0 {
					u = append(u, p)
				}
			}
		} else {
			u = all
		}
		for i := len(all) - 1; i >= 0; i-- {
			dsc = append(dsc, all[i])
		}
		e.Vars = []VarSpec{{Local: "u", Type: "node-set", Nodes: u}, {Local: "d", Type: "node-set", Nodes: dsc}}
		return e
	}
	r.runGrid(len(jobs), func(i int) *adoc.Doc { return adoc.Instantiate(jobs[i].f, jobs[i].deco) }, names, nil)
	ld := c12LangDocs()
	r.runGrid(len(ld), func(i int) *adoc.Doc { return ld[i].Clone().Finish() }, langs, nil)
	// every letter of the alphabet in both cases on both sides: one document whose
	// 26 elements carry xml:lang="AA-A" ... "ZZ-Z", one with the lower-case tags,
	// asked for every letter in lower, upper and mixed case
	{
		mk := func(upper bool) *adoc.Doc {
			d := adoc.NewDoc()
			root := adoc.E("r")
			for ch := 'a'; ch <= 'z'; ch++ {
				l := string(ch)
				if upper {
					l = strings.ToUpper(l)
				}
				e := adoc.E("e", adoc.T("t"))
				e.Add(adoc.ANS(adoc.XMLNS, "xml", "lang", l+l+"-"+l))
				root.Add(e)
			}
			d.Root.Add(root)
			return d.Finish()
		}
		letterDocs := []*adoc.Doc{mk(true), mk(false)}
		var lt []string
		for ch := 'a'; ch <= 'z'; ch++ {
			lo, up := string(ch), strings.ToUpper(string(ch))
			lt = append(lt, "count(//*[lang('"+lo+lo+"')])", "count(//*[lang('"+up+up+"')])", "count(//node()[lang('"+lo+up+"-"+up+"')])", "count(//*[lang('"+up+lo+"-"+lo+"')])")
		}
		r.runGrid(len(letterDocs), func(i int) *adoc.Doc { return letterDocs[i].Clone().Finish() }, mustParse(lt), func(n *adoc.Node) bool { return n.Kind == adoc.Root })
	}
	// lang on the decorated shape universe too (D4 carries xml:lang)
	var j4 []job
	for _, f := range shapes {
		j4 = append(j4, job{f, adoc.D4})
	}
	r.runGrid(len(j4), func(i int) *adoc.Doc { return adoc.Instantiate(j4[i].f, j4[i].deco) }, langs[:12], nil)
	c.Sample(map[string]string{"doc": ld[7].String(), "context": "every node", "expr": "lang('en')"})
	c.Sample(map[string]string{"doc": adoc.Instantiate(jobs[len(jobs)/2].f, adoc.D3).String(), "context": "every node", "expr": "name(preceding::node())"})
	c.Rule = fmt.Sprintf("forests <=%d nodes x decorations D0-D5: %d name/local-name/namespace-uri/count expressions (default and explicit argument, empty sets, reverse-axis node-sets, unions of namespace and attribute nodes of one element, wrong-typed arguments) from EVERY node of every kind; %d documents with xml:lang on self/ancestor/overridden/absent (incl. every ordered arrangement of lang / p:lang / xml:lang attributes on one element) over %d tag values x %d lang() expressions (ranges differing in case, with region/script/private-use subtags, empty) from every node; every letter a-z in either case on either side (2 documents x 104 expressions); compared with the reference; non-trivial = distinct (expression, context kind, result)", n, len(names), len(ld), len(c12Langs), len(langs))
	c.Set("documents", len(jobs)+len(ld)+len(j4))
	c.Assume("reference: refxp.NodeNames / refxp.Lang (exact or prefix + '-', ASCII case-insensitive)")
}

func init() {
	Registry["C12"] = Prop{"exploration", C12}
	replayers["C12"] = func(raw json.RawMessage) string {
		var x XCase
		json.Unmarshal(raw, &x)
		return replayX(x, false)
	}
}
