package props

import (
	"encoding/json"
	"fmt"
	"math"

	"xv/run"
)

// ---- C05: comparison operators ------------------------------------------------

var c05Strings = []string{"", "1", "2", "9", "10", " 1 ", "01", "a", "b", "NaN", "1e1", "true"}

// c05NodeTexts are the string-values of the elements node-set operands are drawn
// from: text that is no number, numbers on both sides of zero, zero itself.
var c05NodeTexts = []string{"", "1", "2", "10", " 1 ", "a", "-1", "0", "-5", "9"}
var c05Numbers = []float64{0, math.Copysign(0, -1), 1, 2, 9, 10, -1, 0.5, math.NaN(), math.Inf(1), math.Inf(-1)}
var c05Ops = []string{"=", "!=", "<", "<=", ">", ">="}

func c05Operands(maxSet int) []VarSpec {
	var vals []VarSpec
	vals = append(vals, boolVar("x", true), boolVar("x", false))
	for _, f := range c05Numbers {
		vals = append(vals, numVar("x", f))
	}
	for _, s := range c05Strings {
		vals = append(vals, strVar("x", s))
	}
	// node-sets: every subset of size <= maxSet of the elements of c05NodeTexts
	paths := make([]string, len(c05NodeTexts))
	for i := range paths {
		paths[i] = fmt.Sprintf("/0/%d", i)
	}
	vals = append(vals, setVar("x"))
	var rec func(start int, cur []string)
	rec = func(start int, cur []string) {
		if len(cur) > 0 {
			vals = append(vals, setVar("x", append([]string{}, cur...)...))
		}
		if len(cur) == maxSet {
			return
		}
		for i := start; i < len(paths); i++ {
			rec(i+1, append(cur, paths[i]))
		}
	}
	rec(0, nil)
	return vals
}

// c05Literal spells an operand as XPath text (nil if not expressible).
func c05Literal(v VarSpec) (string, bool) {
	switch v.Type {
	case "boolean":
		if v.Bool {
			return "true()", true
		}
		return "false()", true
	case "number":
		f := parseNum(v.Num)
		switch {
		case math.IsNaN(f):
			return "(0 div 0)", true
		case math.IsInf(f, 1):
			return "(1 div 0)", true
		case math.IsInf(f, -1):
			return "(-1 div 0)", true
		case f == 0 && math.Signbit(f):
			return "(-0)", true
		case f < 0:
			return fmt.Sprintf("(%v)", f), true
		}
		return fmt.Sprintf("%v", f), true
	case "string":
		return "'" + v.Str + "'", true
	}
	if len(v.Nodes) == 0 {
		return "/r/none", true
	}
	s := "/r/e["
	for i, p := range v.Nodes {
		var idx int
		fmt.Sscanf(p, "/0/%d", &idx)
		if i > 0 {
			s += " or "
		}
		s += fmt.Sprintf("position()=%d", idx+1)
	}
	return s + "]", true
}

func C05(c *run.Check) {
	defer finishTriage()
	maxSet := 3
	if !c.Quick() {
		maxSet = 4
	}
	vals := c05Operands(maxSet)
	d := vdoc(c05NodeTexts)
	var exprs []refExpr
	for _, op := range c05Ops {
		exprs = append(exprs, mustParse([]string{"$l " + op + " $r"})...)
	}
	c.Rule = fmt.Sprintf("operand alphabet: 2 booleans, %d numbers (0,-0,NaN,+-Inf,...), %d strings ('10' vs '9', padded, '01', 'NaN', '1e1', ...), every node-set of size <=%d over %d elements with the string-values '', '1', '2', '10', ' 1 ', 'a', '-1', '0', '-5', '9' (%d operands); ALL ordered pairs x 6 operators with operands bound as variables, plus a literal/path spelling of every 7th pair; compared with XPath 1.0 section 3.4 in the reference; non-trivial = distinct (operator, operand types, result)", len(c05Numbers), len(c05Strings), maxSet, len(c05NodeTexts), len(vals))
	r := &vrunner{c: c, kind: "C05"}
	workers := make([]*vworker, run.Workers())
	n := len(vals)
	run.ParallelW(n*n, func(w, i int) {
		if (!triage && c.Violations() > 0) || c.TimeUp() {
			return
		}
		if workers[w] == nil {
			workers[w] = newVWorker(d)
		}
		l, rr := renameVar(vals[i/n], "l"), renameVar(vals[i%n], "r")
		for oi, e := range exprs {
			c.Evaluations.Add(1)
			if r.one(workers[w], "/", e, []VarSpec{l, rr}) {
				c.Distinct(c05Ops[oi] + "|" + l.Type + "|" + rr.Type)
			}
		}
		if i%7 == 0 {
			ls, _ := c05Literal(l)
			rs, _ := c05Literal(rr)
			for _, op := range c05Ops {
				c.Evaluations.Add(1)
				e := mustParse([]string{ls + " " + op + " " + rs})[0]
				if r.oneLit(workers[w], "/", e) {
					c.Distinct("lit" + op + "|" + l.Type + "|" + rr.Type)
				}
			}
		}
		if i%3571 == 11 {
			c.Sample(map[string]string{"expr": "$l < $r", "l": descVar(l), "r": descVar(rr)})
		}
	})
	c.Set("operands", len(vals))
	c.Set("pairs", n*n)
	c.Assume("reference comparison refxp.Compare written from XPath 1.0 section 3.4")
}

func init() {
	Registry["C05"] = Prop{"exploration", C05}
	replayers["C05"] = func(raw json.RawMessage) string {
		var vc vcase
		json.Unmarshal(raw, &vc)
		return replayV(vc, false, nil)
	}
}
