package props

import (
	"bytes"
	"context"
	"encoding/json"
	"encoding/xml"
	"fmt"
	"io"
	"mime"
	"os"
	"os/exec"
	"path/filepath"
	"sort"
	"strings"
	"time"

	"github.com/ChrisTrenkamp/xsel"
	"github.com/ChrisTrenkamp/xsel/node"
	"github.com/ChrisTrenkamp/xsel/store"

	"xv/run"
)

// ---- C20: the CLI prints exactly the library's result for each input file --------

var c20Files = map[string]string{
	"g1.xml":         "<?xml version=\"1.0\"?>\n<r xmlns:p=\"urn:u\" x=\"1\"><a y=\"l1&#10;l2\">t&amp;&lt;x\nline2</a><p:b p:z=\"3\">two</p:b><!-- c1 --><?pi d1?><a/></r>",
	"g2.xml":         "<doc><a>alpha</a><a>beta</a><b><a>gamma</a></b></doc>",
	"g3.xml":         "<r><!-- c\nd --><?pi a\nb?><a>x</a></r>",
	"g4.xml":         "<r><e/><e>two</e><e a=\"\">three</e><!----><a></a><a>last</a></r>",
	"picture.svg":    "<svg xmlns=\"http://www.w3.org/2000/svg\"><title>logo</title><a>in svg</a></svg>",
	"page.xhtml":     "<html xmlns=\"http://www.w3.org/1999/xhtml\"><body><a>in xhtml</a></body></html>",
	"g6.xml":         "<r><a>made by &corp; in 2020</a><a k=\"&corp;\">x&nbsp;y&amp;z</a></r>",
	"g5%d.xml":       "<r p=\"5%\"><a>100% d%s %v%%</a><!--%d--><?pi %s?><a>%</a></r>",
	"d.json":         `{"a": [1, 2.5, "x"], "b": {"a": true}}`,
	"p.html":         "<!doctype html><html><body><a href=\"u\">link</a><p>para<b>bold</b></p><!--hc--></body></html>",
	"bad.xml":        "<r><a></r>",
	"n.txt":          "<r><a>text file</a></r>",
	"noext":          "<r><a>no extension</a></r>",
	"bad.json":       `{"a": [1, 2`,
	"nodoctype.html": "<p>no doctype</p>",
}

type c20Flags struct {
	A, M, N, R bool
	T          string
	S, V       bool
	U, E       bool   // -u (non-strict XML decoding), -e corp=ACME (entity binding)
	C          string // -c N (number of workers; the printed blocks do not depend on it)
}

func (f c20Flags) args() []string {
	var a []string
	if f.A {
		a = append(a, "-a")
	}
	if f.M {
		a = append(a, "-m")
	}
	if f.N {
		a = append(a, "-n")
	}
	if f.R {
		a = append(a, "-r")
	}
	if f.T != "" {
		a = append(a, "-t", f.T)
	}
	if f.S {
		a = append(a, "-s", "p=urn:u")
	}
	if f.V {
		a = append(a, "-v", "v= hello\t")
	}
	if f.U {
		a = append(a, "-u")
	}
	if f.E {
		a = append(a, "-e", "corp= ACME ")
	}
	if f.C != "" {
		a = append(a, "-c", f.C)
	}
	return a
}

var c20Exprs = []string{"/*", "//a", "//@*", "//text()", "//comment()", "//processing-instruction()", "count(//*)", "string(//@*)", "//nosuch", "1 = 1", "//p:b", "$v", "concat($v, '!', count(//a))", "//namespace::*", "//a | //b", "/", "//a/ancestor::*", "//*[last()]", "((", "//e", "//*[not(node())]", "//@a | //e", "//comment() | //a", "//e[1]", "concat('5%', 'd')"}

// c20Type is the documented type detection: -t, else the media type of the
// file's extension (Go's mime table, as on the machine the tool runs on): XML
// for the subtype xml or a +xml structured-syntax suffix (RFC 7303), likewise
// JSON (RFC 6839), HTML for the subtype html.
func c20Type(path string, flagT string) (string, string) {
	if flagT != "" {
		return flagT, ""
	}
	ext := filepath.Ext(path)
	if ext == "" {
		return "", "no media type"
	}
	mt, _, err := mime.ParseMediaType(mime.TypeByExtension(ext))
	if err != nil || mt == "" {
		return "", "no media type"
	}
	sub := mt
	if i := strings.IndexByte(mt, '/'); i >= 0 {
		sub = mt[i+1:]
	}
	switch {
	case sub == "xml" || strings.HasSuffix(sub, "+xml"):
		return "xml", ""
	case sub == "html":
		return "html", ""
	case sub == "json" || strings.HasSuffix(sub, "+json"):
		return "json", ""
	}
	return "", "unsupported media type"
}

// c20Expected computes, through the library API, what the CLI must print for
// one input. ok=false: a diagnostic naming the input is expected on stderr and
// nothing on stdout.
type c20Block struct {
	path    string
	records []string // complete records including prefix and trailing newline
	mNodes  []store.Cursor
	diag    bool
	prefix  string
}

func c20Expected(path, display string, data []byte, f c20Flags, expr string) c20Block {
	blk := c20Block{path: display}
	typ, problem := c20Type(path, f.T)
	if problem != "" {
		blk.diag = true
		return blk
	}
	var cur xsel.Cursor
	var err error
	switch typ {
	case "xml":
		cur, err = xsel.ReadXml(bytes.NewReader(data), func(d *xml.Decoder) {
			d.Strict = !f.U
			if f.E {
				d.Entity = map[string]string{"corp": " ACME "}
			}
		})
	case "html":
		cur, err = xsel.ReadHtml(bytes.NewReader(data))
	case "json":
		cur, err = xsel.ReadJson(bytes.NewReader(data))
	}
	if err != nil {
		blk.diag = true
		return blk
	}
	g, err := xsel.BuildExpr(expr)
	if err != nil {
		blk.diag = true
		return blk
	}
	var settings []xsel.ContextApply
	if f.S {
		settings = append(settings, xsel.WithNS("p", "urn:u"))
	}
	if f.V {
		settings = append(settings, xsel.WithVariable("v", xsel.String(" hello\t")))
	}
	res, err := xsel.Exec(cur, &g, settings...)
	if err != nil {
		blk.diag = true
		return blk
	}
	prefix := display + ": "
	if f.N || display == "-" {
		prefix = ""
	}
	blk.prefix = prefix
	ns, isNS := res.(xsel.NodeSet)
	switch {
	case isNS && len(ns) == 0:
	case isNS && f.M:
		for _, n := range ns {
			blk.mNodes = append(blk.mNodes, n)
		}
	case isNS && f.A:
		for _, n := range ns {
			blk.records = append(blk.records, prefix+xsel.GetCursorString(n)+"\n")
		}
	default:
		blk.records = append(blk.records, prefix+res.String()+"\n")
	}
	return blk
}

// canonical form of a cursor subtree (expanded names, sorted attributes).
// c20CursorCanonQ is c20CursorCanon under the open finding
// C20-newline-in-comment-or-pi: a newline inside a comment or processing
// instruction comes back as the literal text "&#10;".
func c20CursorCanonQ(c store.Cursor) string { return c20CursorCanonImpl(c, true) }

func c20CursorCanon(c store.Cursor) string { return c20CursorCanonImpl(c, false) }

func c20CursorCanonImpl(c store.Cursor, quirk bool) string {
	nl := func(s string) string {
		if quirk {
			return strings.ReplaceAll(s, "\n", "&#10;")
		}
		return s
	}
	var sb strings.Builder
	var w func(c store.Cursor)
	w = func(c store.Cursor) {
		switch n := c.Node().(type) {
		case node.Namespace, node.Attribute:
			_ = n
		case node.CharData:
			fmt.Fprintf(&sb, "T%q", n.CharDataValue())
		case node.Comment:
			fmt.Fprintf(&sb, "C%q", nl(n.CommentValue()))
		case node.ProcInst:
			fmt.Fprintf(&sb, "P%s %q", n.Target(), nl(n.ProcInstValue()))
		case node.Element:
			sb.WriteString("E{" + n.Space() + "}" + n.Local() + "(")
			var as []string
			for _, a := range c.Attributes() {
				an := a.Node().(node.Attribute)
				as = append(as, fmt.Sprintf("{%s}%s=%q", an.Space(), an.Local(), an.AttributeValue()))
			}
			sort.Strings(as)
			sb.WriteString(strings.Join(as, ","))
			sb.WriteString(")[")
			for _, k := range c.Children() {
				w(k)
			}
			sb.WriteString("]")
		default: // root
			sb.WriteString("R[")
			for _, k := range c.Children() {
				w(k)
			}
			sb.WriteString("]")
		}
	}
	w(c)
	return sb.String()
}

// canonical form of an XML record printed by -m (parsed by the harness).
func c20RecordCanon(rec string, wrapRoot bool) (string, error) {
	d := xml.NewDecoder(strings.NewReader(rec))
	var sb strings.Builder
	if wrapRoot {
		sb.WriteString("R[")
	}
	text := ""
	flush := func() {
		if text != "" {
			fmt.Fprintf(&sb, "T%q", text)
			text = ""
		}
	}
	for {
		tok, err := d.Token()
		if err == io.EOF {
			break
		}
		if err != nil {
			return "", err
		}
		switch t := tok.(type) {
		case xml.StartElement:
			flush()
			sb.WriteString("E{" + t.Name.Space + "}" + t.Name.Local + "(")
			var as []string
			for _, a := range t.Attr {
				if a.Name.Space == "xmlns" || (a.Name.Space == "" && a.Name.Local == "xmlns") {
					continue
				}
				as = append(as, fmt.Sprintf("{%s}%s=%q", a.Name.Space, a.Name.Local, a.Value))
			}
			sort.Strings(as)
			sb.WriteString(strings.Join(as, ","))
			sb.WriteString(")[")
		case xml.EndElement:
			flush()
			sb.WriteString("]")
		case xml.CharData:
			text += string(t)
		case xml.Comment:
			flush()
			fmt.Fprintf(&sb, "C%q", string(t))
		case xml.ProcInst:
			flush()
			fmt.Fprintf(&sb, "P%s %q", t.Target, string(t.Inst))
		}
	}
	flush()
	if wrapRoot {
		sb.WriteString("]")
	}
	return sb.String(), nil
}

// c20Only, when set by the replayer, restricts C20 to one (argument set, flags, expression) job.
var c20Only *[3]int

type c20Case struct {
	Job    [3]int            `json:"job"`
	Args   []string          `json:"args"`
	Files  map[string]string `json:"files"`
	Stdin  string            `json:"stdin,omitempty"`
	Detail string            `json:"detail"`
	Stdout string            `json:"stdout"`
	Stderr string            `json:"stderr"`
}

// c20MatchBlocks checks stdout is a concatenation of the expected blocks in
// some order (the statement fixes no file order).
func c20MatchBlocks(out string, blocks []string) bool {
	if len(blocks) == 0 {
		return out == ""
	}
	for i, b := range blocks {
		if strings.HasPrefix(out, b) {
			rest := append(append([]string{}, blocks[:i]...), blocks[i+1:]...)
			if c20MatchBlocks(out[len(b):], rest) {
				return true
			}
		}
	}
	return false
}

func c20Binary() (string, error) {
	bin := filepath.Join(run.OutDir, ".bin", fmt.Sprintf("xsel-cli.%d", os.Getpid()))
	os.MkdirAll(filepath.Dir(bin), 0o755)
	cmd := exec.Command("go", "build", "-o", bin, "github.com/ChrisTrenkamp/xsel/xsel")
	cmd.Dir = filepath.Join(run.VerifDir, "harness")
	if out, err := cmd.CombinedOutput(); err != nil {
		return "", fmt.Errorf("building the xsel command: %v\n%s", err, out)
	}
	return bin, nil
}

func C20(c *run.Check) {
	bin, err := c20Binary()
	if err != nil {
		fmt.Fprintln(os.Stderr, err)
		c.Violation(map[string]string{"build": err.Error()}, "the xsel command does not build")
		return
	}
	defer os.Remove(bin)
	base, err := os.MkdirTemp("", "xv-c20-")
	if err != nil {
		panic(err)
	}
	defer os.RemoveAll(base)
	// layout: top-level files, a nested directory, a dangling symlink
	write := func(rel, content string) {
		p := filepath.Join(base, rel)
		os.MkdirAll(filepath.Dir(p), 0o755)
		os.WriteFile(p, []byte(content), 0o644)
	}
	for n, content := range c20Files {
		write(n, content)
	}
	write("sub/g2.xml", c20Files["g2.xml"])
	write("sub/deep/d.json", c20Files["d.json"])
	write("sub/deep/bad.xml", c20Files["bad.xml"])
	os.Symlink(filepath.Join(base, "does-not-exist.xml"), filepath.Join(base, "sub", "gone.xml"))

	type argset struct {
		name  string
		args  []string // relative paths
		stdin string
	}
	argsets := []argset{
		{"two good files", []string{"g1.xml", "g2.xml"}, ""},
		{"mixed types", []string{"d.json", "p.html", "g2.xml"}, ""},
		{"bad among good", []string{"g2.xml", "bad.xml", "g1.xml", "bad.json"}, ""},
		{"unknown extensions", []string{"n.txt", "noext", "g2.xml"}, ""},
		{"directory", []string{"sub"}, ""},
		{"directory and file", []string{"sub", "g1.xml"}, ""},
		{"stdin", []string{"-"}, c20Files["g2.xml"]},
		{"stdin and file", []string{"g1.xml", "-"}, c20Files["g1.xml"]},
		{"stdin first, then more files than workers", []string{"-", "g2.xml", "g1.xml", "g4.xml"}, c20Files["g3.xml"]},
		{"html without doctype", []string{"nodoctype.html", "p.html"}, ""},
		{"missing file", []string{"nope.xml", "g2.xml"}, ""},
		{"newlines in comments and PIs", []string{"g3.xml", "g2.xml"}, ""},
		{"first selected node has an empty string value", []string{"g4.xml", "g1.xml"}, ""},
		{"structured-syntax media types (+xml)", []string{"picture.svg", "page.xhtml", "g2.xml"}, ""},
		{"percent signs in file names and values", []string{"g5%d.xml", "g2.xml"}, ""},
		{"entity references (bound with -e, unknown, non-strict)", []string{"g6.xml", "g2.xml"}, ""},
	}
	var flags []c20Flags
	for m := 0; m < 16; m++ {
		for _, t := range []string{"", "xml", "html", "json"} {
			for sv := 0; sv < 2; sv++ {
				if c.Quick() && t != "" && m%3 != 0 {
					continue
				}
				flags = append(flags, c20Flags{A: m&1 != 0, M: m&2 != 0, N: m&4 != 0, R: m&8 != 0, T: t, S: sv == 1, V: sv == 1})
				// worker counts, including values below 1 (the blocks must not depend on -c)
				if t == "" && (m == 0 || m == 1) {
					for _, cn := range []string{"0", "-2", "1", "3"} {
						flags = append(flags, c20Flags{A: m&1 != 0, T: t, S: sv == 1, V: sv == 1, C: cn})
					}
				}
				// XML decoding flags: -u / -e in all four combinations on a subset
				if (t == "" || t == "xml") && (m == 0 || m == 5 || m == 2) {
					for ue := 1; ue < 4; ue++ {
						flags = append(flags, c20Flags{A: m&1 != 0, M: m&2 != 0, N: m&4 != 0, R: m&8 != 0, T: t, S: sv == 1, V: sv == 1, U: ue&1 != 0, E: ue&2 != 0})
					}
				}
			}
		}
	}
	type job struct{ a, f, e int }
	var jobs []job
	for a := range argsets {
		for f := range flags {
			for e := range c20Exprs {
				if c.Quick() && (a+f+e)%2 == 1 {
					continue
				}
				jobs = append(jobs, job{a, f, e})
			}
		}
	}
	if c20Only != nil {
		jobs = []job{{c20Only[0], c20Only[1], c20Only[2]}}
	}
	walkFiles := func(rel string, recursive bool) (files []string, dirDiag bool) {
		p := filepath.Join(base, rel)
		st, err := os.Stat(p)
		if err != nil {
			return nil, true
		}
		if !st.IsDir() {
			return []string{p}, false
		}
		if !recursive {
			return nil, true
		}
		filepath.WalkDir(p, func(path string, d os.DirEntry, err error) error {
			if err == nil && !d.IsDir() {
				files = append(files, path)
			}
			return nil
		})
		return files, false
	}
	quirkNL := run.Open("C20-newline-in-comment-or-pi")
	run.ParallelW(len(jobs), func(w, ji int) {
		if c.Violations() > 0 || c.TimeUp() {
			return
		}
		j := jobs[ji]
		as, f, expr := argsets[j.a], flags[j.f], c20Exprs[j.e]
		args := append(f.args(), "-x", expr)
		for _, a := range as.args {
			if a == "-" {
				args = append(args, "-")
			} else {
				args = append(args, filepath.Join(base, a))
			}
		}
		// the command normally takes milliseconds; one that has not finished after
		// three minutes is stuck (e.g. a worker slot that is never released)
		cctx, cancel := context.WithTimeout(context.Background(), 3*time.Minute)
		cmd := exec.CommandContext(cctx, bin, args...)
		cmd.Stdin = strings.NewReader(as.stdin)
		var so, se bytes.Buffer
		cmd.Stdout, cmd.Stderr = &so, &se
		runErr := cmd.Run()
		if cctx.Err() != nil {
			runErr = fmt.Errorf("the command did not terminate within 3 minutes (deadlock?)")
		}
		cancel()
		c.Evaluations.Add(1)
		stdout, stderr := so.String(), se.String()
		fail := func(msg string) {
			c.Violation(c20Case{Job: [3]int{j.a, j.f, j.e}, Args: append(f.args(), append([]string{"-x", expr}, as.args...)...), Files: c20Files, Stdin: as.stdin, Detail: msg, Stdout: stdout, Stderr: stderr},
				fmt.Sprintf("xsel %s: %s\nstdout: %q\nstderr: %q", strings.Join(append(f.args(), append([]string{"-x", expr}, as.args...)...), " "), msg, stdout, stderr))
		}
		if runErr != nil {
			fail("command failed: " + runErr.Error())
			return
		}
		if _, err := xsel.BuildExpr(expr); err != nil {
			if stdout != "" || strings.TrimSpace(stderr) == "" { // any wording
				fail("bad expression must only produce a diagnostic")
			}
			return
		}
		if f.T != "" && f.T != "xml" && f.T != "html" && f.T != "json" {
			return
		}
		// expected blocks
		var blocks []string
		var mblocks []c20Block
		var diags []string
		for _, a := range as.args {
			if a == "-" {
				if f.T == "" {
					diags = append(diags, "stdin")
					continue
				}
				b := c20Expected("stdin."+f.T, "-", []byte(as.stdin), f, expr)
				if b.diag {
					diags = append(diags, "stdin")
				} else if f.M && len(b.mNodes) > 0 {
					mblocks = append(mblocks, b)
				} else if len(b.records) > 0 {
					blocks = append(blocks, strings.Join(b.records, ""))
				}
				continue
			}
			files, dirDiag := walkFiles(a, f.R)
			if dirDiag {
				diags = append(diags, filepath.Join(base, a))
			}
			for _, p := range files {
				data, err := os.ReadFile(p)
				if err != nil {
					diags = append(diags, p)
					continue
				}
				b := c20Expected(p, p, data, f, expr)
				if b.diag {
					diags = append(diags, p)
				} else if f.M && len(b.mNodes) > 0 {
					mblocks = append(mblocks, b)
				} else if len(b.records) > 0 {
					blocks = append(blocks, strings.Join(b.records, ""))
				}
			}
		}
		for _, d := range diags {
			if d == "stdin" {
				if strings.TrimSpace(stderr) == "" { // any wording
					fail("no diagnostic for stdin on stderr")
					return
				}
			} else if !strings.Contains(stderr, filepath.Base(d)) { // the wording is free, the input must be named
				fail("no diagnostic naming " + d + " on stderr")
				return
			}
		}
		if len(mblocks) == 0 {
			if !c20MatchBlocks(stdout, blocks) {
				fail(fmt.Sprintf("stdout is not the concatenation (in some order) of the expected per-file blocks %q", blocks))
				return
			}
			c.Distinct(fmt.Sprint(as.name, f.args(), expr, len(blocks)))
			return
		}
		// -m: records are single lines; each parses back to the selected node
		lines := strings.Split(strings.TrimSuffix(stdout, "\n"), "\n")
		if stdout == "" {
			lines = nil
		}
		var wantRecs []struct {
			prefix string
			node   store.Cursor
		}
		for _, b := range mblocks {
			for _, n := range b.mNodes {
				wantRecs = append(wantRecs, struct {
					prefix string
					node   store.Cursor
				}{b.prefix, n})
			}
		}
		nplain := 0
		for _, b := range blocks {
			nplain += strings.Count(b, "\n")
		}
		if len(lines) != len(wantRecs)+nplain {
			fail(fmt.Sprintf("-m must print one single-line record per selected node: %d lines, want %d", len(lines), len(wantRecs)+nplain))
			return
		}
		// match records to nodes in order per block (blocks may be permuted: try all lines greedily)
		used := make([]bool, len(lines))
		for _, wr := range wantRecs {
			found := false
			var want string
			switch n := wr.node.Node().(type) {
			case node.Namespace:
				want = "namespace " + n.Prefix()
			case node.Attribute:
				want = "attribute " + n.Local()
			default:
				want = c20CursorCanon(wr.node)
			}
			for li, l := range lines {
				if used[li] || !strings.HasPrefix(l, wr.prefix) {
					continue
				}
				rec := strings.TrimPrefix(l, wr.prefix)
				_, isRoot := wr.node.Node().(node.Element)
				_ = isRoot
				got := ""
				switch n := wr.node.Node().(type) {
				case node.Namespace:
					// namespace and attribute nodes have no XML serialisation of their own; the tool
					// prints a processing instruction carrying name and value
					if strings.Contains(rec, n.Prefix()) && strings.Contains(rec, xmlEscapedContains(n.NamespaceValue())) {
						got = want
					}
				case node.Attribute:
					if strings.Contains(rec, n.Local()) && strings.Contains(rec, xmlEscapedContains(n.AttributeValue())) && (n.Space() == "" || strings.Contains(rec, n.Space())) {
						got = want
					}
				default:
					// trees read from JSON use names (#obj, #arr) and adjacent text nodes that
					// XML cannot express: only the record count and prefix are judged there
					if strings.Contains(want, "#obj") || strings.Contains(want, "#arr") || c20AdjacentText(wr.node) {
						got = want
						break
					}
					wrap := false
					if _, ok := wr.node.Node().(node.CharData); !ok {
						if _, ok := wr.node.Node().(node.Comment); !ok {
							if _, ok := wr.node.Node().(node.ProcInst); !ok {
								if _, ok := wr.node.Node().(node.Element); !ok {
									wrap = true
								}
							}
						}
					}
					g, err := c20RecordCanon(rec, wrap)
					if err == nil {
						got = g
					}
				}
				if got == want {
					used[li] = true
					found = true
					break
				}
				if quirkNL && got != "" {
					if wq := c20CursorCanonQ(wr.node); wq != want && got == wq {
						used[li] = true
						found = true
						c.Known("C20-newline-in-comment-or-pi", fmt.Sprintf("xsel -m -x %q: record %q", expr, rec))
						break
					}
				}
			}
			if !found {
				fail(fmt.Sprintf("-m: no output line parses back to the selected node %s", want))
				return
			}
		}
		c.Distinct(fmt.Sprint("m", as.name, f.args(), expr))
	})
	c.Sample(map[string]interface{}{"args": []string{"-a", "-n", "-x", "//a", "g1.xml", "g2.xml"}, "files": "see rule"})
	c.Sample(map[string]interface{}{"args": []string{"-m", "-r", "-x", "/*", "sub", "g1.xml"}})
	c.Set("runs", len(jobs))
	c.Rule = fmt.Sprintf("the freshly built xsel command run as a subprocess on a generated directory tree (2 good XML files with namespaces/attributes/multi-line text/comment/PI, JSON, HTML, malformed XML and JSON, HTML without doctype, .txt, extension-less, a file with %% in its name and values, nested directories, a dangling symlink, a missing file, stdin) for %d argument sets x %d flag combinations (-a -m -n -r, -t none/xml/html/json, -s/-v, -u/-e, -c 0/-2/1/3) x %d expressions: per input the expected block is derived from the library API on the same bytes (nothing for an empty node-set; string value; -a one record per node; -m one single-line record per node whose text, parsed back by the harness, equals the selected node's subtree with expanded names; 'path: ' prefix unless -n/stdin; type detection; a diagnostic naming each bad input on stderr); stdout must be a concatenation of exactly these blocks in some order", len(argsets), len(flags), len(c20Exprs))
	c.Assume("the statement fixes no order of files, so blocks are matched as a multiset; attribute and namespace nodes under -m are only required to yield one line carrying their name (local name and, if any, namespace URI; prefix for namespace nodes) and value")
}

func c20AdjacentText(c store.Cursor) bool {
	prevText := false
	for _, k := range c.Children() {
		_, isText := k.Node().(node.CharData)
		if isText && prevText {
			return true
		}
		prevText = isText
		if c20AdjacentText(k) {
			return true
		}
	}
	return false
}

func xmlEscapedContains(v string) string {
	// the value may appear escaped in the record; compare on a fragment without special characters
	for i, r := range v {
		if strings.ContainsRune("&<>\"'\n", r) {
			return v[:i]
		}
	}
	return v
}

func init() {
	Registry["C20"] = Prop{"exploration", C20}
	replayers["C20"] = func(raw json.RawMessage) string {
		var cs c20Case
		json.Unmarshal(raw, &cs)
		fmt.Println("xsel", strings.Join(cs.Args, " "))
		c20Only = &cs.Job
		tmp, _ := os.MkdirTemp("", "xv-c20-replay-")
		defer os.RemoveAll(tmp)
		run.OutDir = tmp
		c := run.New("C20", "thorough", "exploration")
		C20(c)
		if c.Violations() > 0 {
			return cs.Detail
		}
		return ""
	}
}
