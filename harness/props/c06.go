package props

import (
	"encoding/json"
	"fmt"
	"math"
	"strings"

	"xv/adoc"
	"xv/refxp"
	"xv/run"
)

// ---- C06: arithmetic and numeric functions ---------------------------------------

var c06Numbers = []float64{
	0, math.Copysign(0, -1), 0.5, -0.5, 1, -1, 1.5, -1.5, 2.5, -2.5, 3, -3, 0.1, 1e-7, 0.49999999999999994, -0.49999999999999994,
	2, -2, 7, -7, 2147483648, 9007199254740992, 9007199254740993, 9223372036854775808, 18446744073709551616, -9223372036854775808, 1e21, -1e21,
	math.MaxFloat64, -math.MaxFloat64, math.SmallestNonzeroFloat64, 4.5, 5.5, -3.5, 0.3, 10, 1e300, math.NaN(), math.Inf(1), math.Inf(-1),
}

var c06SumTexts = []string{"1", "2.5", "-3", "0.5", " 4 ", "x", "", "1e2", "10", "-0.25"}

// c06WideTexts: values whose sum depends on rounding (0.1+0.2+0.3), on
// cancellation (1 + 1e16 - 1e16) and on overflow to infinity (310-digit numbers).
var c06WideTexts = []string{"0.1", "0.2", "0.3", "1" + strings.Repeat("0", 309), "-1" + strings.Repeat("0", 309), "1", "10000000000000000", "-10000000000000000", "0.7"}

// c06WideJudge: sum($x) must be A sum of the numbers of the nodes in IEEE 754
// double arithmetic; the statement does not fix the order of the additions, so
// the left-to-right sum of ANY ordering of the nodes is accepted.
func c06WideJudge(e refExpr, vals []VarSpec, got, want Outcome) string {
	if got.Panic != "" {
		return "panic escaped: " + got.Panic
	}
	if IsPanicErr(got) {
		return "internal 'xpath query panic' error"
	}
	if got.Err {
		return "error for a node-set operand"
	}
	if got.Type != "number" {
		return "result is not a number"
	}
	if SameValue(got, want, true) {
		return ""
	}
	ok := false
	for _, v := range vals {
		if v.Type != "node-set" {
			continue
		}
		permute(v.Nodes, func(p []string) {
			s := 0.0
			for _, path := range p {
				var idx int
				fmt.Sscanf(path, "/0/%d", &idx)
				s += refxp.StringToNumber(c06WideTexts[idx])
			}
			if s == got.Num || (math.IsNaN(s) && math.IsNaN(got.Num)) {
				ok = true
			}
		})
	}
	if ok {
		return ""
	}
	return "is not the IEEE 754 sum of the numbers of the nodes in any order of addition"
}

func c06Judge(e refExpr, vals []VarSpec, got, want Outcome) string {
	if got.Panic != "" {
		return "panic escaped: " + got.Panic
	}
	if IsPanicErr(got) {
		return "internal 'xpath query panic' error"
	}
	if got.Err && !want.Err {
		return "error for numeric operands"
	}
	signZero := true
	if len(e.Text) >= 5 && e.Text[:5] == "round" {
		signZero = false // the statement does not fix the sign of a zero result of round()
	}
	if !SameValue(got, want, signZero) {
		return "differs from IEEE 754 double arithmetic"
	}
	return ""
}

func C06(c *run.Check) {
	defer finishTriage()
	d := vdoc(c06SumTexts)
	ops := []string{"+", "-", "*", "div", "mod"}
	var bin []refExpr
	for _, op := range ops {
		bin = append(bin, mustParse([]string{"$a " + op + " $b"})...)
	}
	un := mustParse([]string{"-$a", "floor($a)", "ceiling($a)", "round($a)", "--$a", "number($a)", "$a + 0", "0 - $a"})
	c.Rule = fmt.Sprintf("%d boundary doubles (+-0, +-0.5, ties, 0.49999999999999994, 2^31, 2^53+-1, 2^63, 2^64, 1e21, max, min subnormal, NaN, +-Inf): ALL ordered pairs x {+,-,*,div,mod} and all values x {unary -, floor, ceiling, round} with operands as Number variables and as literals where expressible; sum()/count() over every node-set of size <=3 from a 10-text alphabet (fractions, negatives, padded, non-numeric); sum() over every sequence of <=4 distinct nodes from 9 texts whose sum depends on rounding (0.1, 0.2, 0.3, 0.7), cancellation (1, +-1e16) and overflow (310-digit numbers = +-Infinity), accepted if it is the IEEE sum in some order of addition; every arithmetic operator and rounding function with node-set operands in EVERY storage order (all permutations of every subset of size 2-3) and with reverse-axis paths as operands; sum() over elements with MIXED content (text split by comments, processing instructions and child elements; 26 paths and every 1-2 element operand); results compared by bit pattern (NaN==NaN; sign of zero ignored for round) with Go float64 / math.Mod; non-trivial = distinct (operation, result)", len(c06Numbers))
	r := &vrunner{c: c, kind: "C06", judge: c06Judge}
	if run.Open("C06-round-negative-tie") {
		r.known = func(e refExpr, vals []VarSpec, got, want Outcome) string {
			if e.Text == "round($a)" && len(vals) == 1 {
				x := parseNum(vals[0].Num)
				if x < -1 && x == math.Trunc(x)-0.5 && got.Type == "number" && got.Num == math.Trunc(x)-1 {
					return "C06-round-negative-tie"
				}
			}
			return ""
		}
	}
	workers := make([]*vworker, run.Workers())
	n := len(c06Numbers)
	run.ParallelW(n*n, func(w, i int) {
		if !triage && c.Violations() > 0 {
			return
		}
		if workers[w] == nil {
			workers[w] = newVWorker(d)
		}
		a, b := numVar("a", c06Numbers[i/n]), numVar("b", c06Numbers[i%n])
		for oi, e := range bin {
			c.Evaluations.Add(1)
			if r.one(workers[w], "/", e, []VarSpec{a, b}) {
				c.Distinct(ops[oi] + "|" + a.Num + "|" + b.Num)
			}
			// literal spelling
			la, oka := c05Literal(a)
			lb, okb := c05Literal(b)
			if oka && okb && math.Abs(c06Numbers[i/n]) < 1e15 && math.Abs(c06Numbers[i%n]) < 1e15 {
				le := mustParse([]string{la + " " + ops[oi] + " " + lb})[0]
				c.Evaluations.Add(1)
				r.oneLit(workers[w], "/", le)
			}
		}
		if i%n == 0 {
			for _, e := range un {
				c.Evaluations.Add(1)
				if r.one(workers[w], "/", e, []VarSpec{a}) {
					c.Distinct(e.Text + "|" + a.Num)
				}
			}
		}
		if i%397 == 5 {
			c.Sample(map[string]string{"expr": "$a mod $b", "a": a.Num, "b": b.Num})
		}
	})
	// sum / count over node-sets
	sets := c05Operands(3)
	agg := mustParse([]string{"sum($x)", "count($x)", "sum($x) + 1", "sum($x | /r/e[1])", "count($x | /r/e)"})
	run.ParallelW(len(sets), func(w, i int) {
		if workers[w] == nil {
			workers[w] = newVWorker(d)
		}
		v := sets[i]
		if v.Type != "node-set" {
			return
		}
		for _, e := range agg {
			c.Evaluations.Add(1)
			if r.one(workers[w], "/", e, []VarSpec{v}) {
				c.Distinct(e.Text + fmt.Sprint(v.Nodes))
			}
		}
	})
	// node-set operands in every storage order (reverse axes deliver nearest-first,
	// callers may bind any order): number() of a node-set is that of its first node
	// in DOCUMENT order
	nsOps := mustParse([]string{"$x + 1", "1 - $x", "$x * 2", "$x div 2", "2 div $x", "$x mod 7", "7 mod $x", "-$x", "floor($x)", "ceiling($x)", "round($x)", "number($x)", "$x + $x", "$x * $x", "sum($x) - $x"})
	var perms []VarSpec
	for _, v := range sets {
		if v.Type != "node-set" || len(v.Nodes) < 2 {
			continue
		}
		permute(v.Nodes, func(p []string) {
			perms = append(perms, setVar("x", append([]string{}, p...)...))
		})
	}
	run.ParallelW(len(perms), func(w, i int) {
		if !triage && c.Violations() > 0 {
			return
		}
		if workers[w] == nil {
			workers[w] = newVWorker(d)
		}
		for _, e := range nsOps {
			c.Evaluations.Add(1)
			if r.one(workers[w], "/", e, []VarSpec{perms[i]}) {
				c.Distinct(e.Text + fmt.Sprint(perms[i].Nodes))
			}
		}
	})
	c.Set("permuted_node_set_operands", len(perms))
	revPaths := []string{"/r/e[4]/preceding-sibling::e", "/r/e[last()]/preceding-sibling::*", "/r/e[3]/text()/preceding::text()", "/r/e[2]/text()/ancestor::*", "/r/e[5]/ancestor-or-self::*", "/r/e[6]/preceding::e", "(/r/e[4]/preceding-sibling::e)", "/r/e[4]/preceding-sibling::e[. > 0]", "/r/e[7]/following-sibling::e"}
	var revE []string
	for _, pth := range revPaths {
		for _, t := range []string{"%s + 1", "1 - %s", "%s * 2", "%s div 4", "%s mod 7", "-%s", "floor(%s)", "ceiling(%s)", "round(%s)", "%s + %s"} {
			if strings.Count(t, "%s") == 2 {
				revE = append(revE, fmt.Sprintf(t, pth, pth))
			} else {
				revE = append(revE, fmt.Sprintf(t, pth))
			}
		}
	}
	for _, e := range mustParse(revE) {
		c.Evaluations.Add(1)
		if workers[0] == nil {
			workers[0] = newVWorker(d)
		}
		if r.one(workers[0], "/", e, nil) {
			c.Distinct(e.Text)
		}
	}
	// sums whose value depends on rounding, cancellation and overflow: every
	// non-empty sequence of up to 4 distinct elements of c06WideTexts
	{
		dw := vdoc(c06WideTexts)
		rw := &vrunner{c: c, kind: "C06w", judge: c06WideJudge}
		sumE := mustParse([]string{"sum($x)"})[0]
		var seqs []VarSpec
		var rec func(cur []string)
		rec = func(cur []string) {
			if len(cur) > 0 {
				seqs = append(seqs, setVar("x", append([]string{}, cur...)...))
			}
			if len(cur) == 4 {
				return
			}
		next:
			for i := range c06WideTexts {
				pth := fmt.Sprintf("/0/%d", i)
				for _, q := range cur {
					if q == pth {
						continue next
					}
				}
				rec(append(cur, pth))
			}
		}
		rec(nil)
		ww := make([]*vworker, run.Workers())
		run.ParallelW(len(seqs), func(w, i int) {
			if !triage && c.Violations() > 0 {
				return
			}
			if ww[w] == nil {
				ww[w] = newVWorker(dw)
			}
			c.Evaluations.Add(1)
			if rw.one(ww[w], "/", sumE, []VarSpec{seqs[i]}) {
				c.Distinct("wide sum" + fmt.Sprint(seqs[i].Nodes))
			}
		})
		c.Set("rounding_sensitive_sum_operands", len(seqs))
		for _, e := range mustParse([]string{"sum(/r/e)", "sum(/r/e[position() <= 3])", "sum(/r/e[position() = 4 or position() = 6])", "sum(/r/e[position() > 5])", "sum(/r/e[position() = 4 or position() = 5])"}) {
			c.Evaluations.Add(1)
			if ww[0] == nil {
				ww[0] = newVWorker(dw)
			}
			// path spellings: no variable to permute - judged against the sums of the selected texts
			sel := map[string][]string{"sum(/r/e)": {"/0/0", "/0/1", "/0/2", "/0/3", "/0/4", "/0/5", "/0/6", "/0/7", "/0/8"}, "sum(/r/e[position() <= 3])": {"/0/0", "/0/1", "/0/2"}, "sum(/r/e[position() = 4 or position() = 6])": {"/0/3", "/0/5"}, "sum(/r/e[position() > 5])": {"/0/5", "/0/6", "/0/7", "/0/8"}, "sum(/r/e[position() = 4 or position() = 5])": {"/0/3", "/0/4"}}[e.Text]
			if len(sel) > 5 {
				// 9! orderings are not enumerated: the document-order sum or NaN/Inf classes decide
				rw2 := &vrunner{c: c, kind: "C06", judge: c06Judge}
				rw2.one(ww[0], "/", e, nil)
				continue
			}
			rw3 := &vrunner{c: c, kind: "C06w", judge: func(e refExpr, _ []VarSpec, got, want Outcome) string {
				return c06WideJudge(e, []VarSpec{setVar("x", sel...)}, got, want)
			}}
			rw3.one(ww[0], "/", e, nil)
		}
	}
	// mixed content: the number of an element is the number of its WHOLE string-value
	// (all text descendants in document order), not of its first text child
	{
		dm := adoc.NewDoc()
		rt := adoc.E("r")
		dm.Root.Add(rt)
		rt.Add(adoc.E("e", adoc.T("1"), adoc.C("c"), adoc.T("2")))
		rt.Add(adoc.E("e", adoc.T("3"), adoc.E("k", adoc.T("4"))))
		rt.Add(adoc.E("e", adoc.T("5"), adoc.P("t", "v"), adoc.T(".5")))
		rt.Add(adoc.E("e", adoc.E("k", adoc.T("7")), adoc.T("8")))
		rt.Add(adoc.E("e", adoc.T("1"), adoc.E("k", adoc.T("x"))))
		rt.Add(adoc.E("e", adoc.T(" 2 "), adoc.E("k")))
		rt.Add(adoc.E("e", adoc.C("9"), adoc.T("6")))
		rt.Add(adoc.E("e", adoc.T("-"), adoc.E("k", adoc.T("1"))))
		rt.Add(adoc.E("e", adoc.A("x", "3"), adoc.T("4"), adoc.E("k", adoc.E("k", adoc.T("0.25")))))
		dm.Finish()
		wm := newVWorker(dm)
		for _, e := range mustParse([]string{"sum(/r/e[1])", "sum(/r/e[position() <= 4])", "sum(/r/e[2] | /r/e[3])", "sum(/r/e[6])", "sum(/r/e[7] | /r/e[8])", "sum(/r/e[5])", "sum(/r/e/k)", "sum(/r/e/@x | /r/e[1])",
			"sum(/r/e[9])", "sum(/r/e[9]/k)", "sum(/r/e[position() != 5])", "sum(/r/e)", "sum(/r)", "sum(/)", "sum(//k/..)", "sum(/r/e[1]/text())", "sum(/r/e/comment())", "sum(/r/e/processing-instruction())", "sum(//k[. = 4]/..)",
			"sum(/r/e[1]) = number(/r/e[1])", "sum(/r/e[4]) + sum(/r/e[7])", "sum(//text()[. = 3]/..)", "sum(/r/e[k][position() < 3])", "sum(/r/e[not(k)])", "sum(/r/e[3]/node())", "count(/r/e[. > 10])"}) {
			c.Evaluations.Add(1)
			if r.one(wm, "/", e, nil) {
				c.Distinct("mixed " + e.Text)
			}
		}
		var paths []string
		for i := 0; i < 9; i++ {
			paths = append(paths, fmt.Sprintf("/0/%d", i))
		}
		sx := mustParse([]string{"sum($x)", "sum($x) + 1", "sum($x | /r/e[9]/k)"})
		for i := range paths {
			for j := i; j < len(paths); j++ {
				v := setVar("x", paths[i], paths[j])
				if i == j {
					v = setVar("x", paths[i])
				}
				for _, e := range sx {
					c.Evaluations.Add(1)
					if r.one(wm, "/", e, []VarSpec{v}) {
						c.Distinct("mixed " + e.Text + fmt.Sprint(v.Nodes))
					}
				}
			}
		}
	}
	// literals and path spellings
	lits := mustParse([]string{"sum(/r/e)", "sum(/r/e[position()<=4])", "sum(/r/e[2])", "count(/r/e)", "sum(/r/none)", "7 mod 2", "-7 mod 2", "7 mod -2", "5.5 mod 2", "5 mod 0.3", "1 mod 0.5",
		"0.5 mod 1", "round(0.5)", "round(2.5)", "round(-0.5)", "round(-0.2)", "round(0.49999999999999994)", "floor(-0.5)", "ceiling(-0.5)", "1 div 0", "-1 div 0", "0 div 0", "1 div -0", "-0 div 1",
		"0.1 + 0.2", "3 - -3", "2 * -0", "9007199254740993 + 1", "18446744073709551616 mod 10", "round(9223372036854775808)", "round(1e21)", "4 mod 0", "0 mod 0", "-4 mod 0", "(1 div 0) mod 2", "2 mod (1 div 0)",
		"sum(/r/e[1] | /r/e[3])", "count(/r/e[. > 1])", "1e21 + 1", "floor(1.999999999999)", "ceiling(0.000000001)", "round(1.5)", "round(-1.4)", "round(-1.6)"})
	for _, e := range lits {
		c.Evaluations.Add(1)
		if workers[0] == nil {
			workers[0] = newVWorker(d)
		}
		if r.one(workers[0], "/", e, nil) {
			c.Distinct(e.Text)
		}
	}
	c.Set("doubles", len(c06Numbers))
	c.Assume("IEEE 754 results as computed by Go float64 arithmetic and math.Mod/Floor/Ceil")
}

func init() {
	Registry["C06"] = Prop{"exploration", C06}
	replayers["C06"] = func(raw json.RawMessage) string {
		var vc vcase
		json.Unmarshal(raw, &vc)
		if vc.Kind == "C06w" {
			return replayV(vc, true, c06WideJudge)
		}
		return replayV(vc, true, c06Judge)
	}
}
