package props

import (
	"fmt"

	"xv/adoc"
	"xv/impl"
	"xv/refxp"
	"xv/run"
)

// xrunner evaluates expression universes over document universes on both the
// implementation and the reference.
type xrunner struct {
	c        *run.Check
	kind     string
	env      EnvSpec
	signZero bool
	caches   []*exprCache
	// quirkEnv, when set, returns the reference environment with the open
	// known-finding quirks switched on; attribute() names the finding.
	known func(x XCase, got Outcome, d *adoc.Doc, ctx *adoc.Node, e refExpr) string
}

func newXRunner(c *run.Check, kind string, env EnvSpec) *xrunner {
	r := &xrunner{c: c, kind: kind, env: env}
	for i := 0; i < run.Workers(); i++ {
		r.caches = append(r.caches, newExprCache())
	}
	return r
}

func ctxKindName(n *adoc.Node) string { return n.Kind.String() }


// runDoc evaluates all exprs from all context nodes accepted by ctxOK.
func (r *xrunner) runDoc(w int, d *adoc.Doc, exprs []refExpr, ctxOK func(*adoc.Node) bool) {
	b, err := impl.Bind(d)
	if err != nil {
		r.c.Violation(map[string]interface{}{"kind": r.kind + "/bind", "doc": d.String(), "events": impl.Events(d)}, "cannot bind document "+d.String()+": "+err.Error())
		return
	}
	rd := b.Doc // read-back document: namespace/attribute order as exposed by the implementation
	renv := r.env.RefEnv(rd)
	settings := r.env.ImplSettings(b)
	cache := r.caches[w]
	for _, ctx := range rd.Nodes {
		if ctxOK != nil && !ctxOK(ctx) {
			continue
		}
		cur := b.ToCur[ctx]
		for _, e := range exprs {
			r.c.Evaluations.Add(1)
			var want Outcome
			if e.Err != nil {
				want = Outcome{Err: true, ErrText: "syntax: " + e.Err.Error()}
			} else {
				want = RefOutcome(refxp.Eval(e.AST, ctx, renv))
			}
			g, bo := cache.get(e.Text)
			var got Outcome
			if g == nil {
				got = bo
			} else {
				got = ExecImpl(b, cur, g, settings)
			}
			if SameValue(got, want, r.signZero) && !IsPanicErr(got) {
				if !want.Err && !(want.Type == "node-set" && len(want.Nodes) == 0) {
					r.c.Distinct(fmt.Sprintf("%s|%s|%s", e.Text, ctxKindName(ctx), shortOutcome(want)))
				}
				continue
			}
			x := MakeXCase(r.kind, rd, ctx, e.Text, r.env, want, got)
			if r.known != nil {
				if id := r.known(x, got, rd, ctx, e); id != "" {
					r.c.Known(id, fmt.Sprintf("%s from %s in %s", e.Text, ctx.Describe(), rd.String()))
					continue
				}
			}
			report(r.c, e.Text+" from "+ctxKindName(ctx), x)
			if !triage && r.c.Violations() >= 5 {
				return
			}
		}
	}
}

func shortOutcome(o Outcome) string {
	switch o.Type {
	case "node-set":
		return fmt.Sprintf("n%d", len(o.Nodes))
	case "number":
		return "#" + o.NumS
	case "string":
		if len(o.Str) > 12 {
			return "s" + o.Str[:12]
		}
		return "s" + o.Str
	case "boolean":
		return fmt.Sprint(o.Bool)
	}
	return "?"
}

// replayX re-runs a stored XCase from scratch.
func replayX(x XCase, signZero bool) string {
	_, b, err := x.Rebuild()
	if err != nil {
		return "cannot rebuild document: " + err.Error()
	}
	rd := b.Doc
	ctx := rd.Resolve(x.Ctx)
	if ctx == nil {
		return "context node not found"
	}
	ast, perr := refxp.Parse(x.Expr, refxp.Options{})
	var want Outcome
	if perr != nil {
		want = Outcome{Err: true, ErrText: "syntax: " + perr.Error()}
	} else {
		want = RefOutcome(refxp.Eval(ast, ctx, x.Env.RefEnv(rd)))
	}
	g, bo := BuildImpl(x.Expr)
	got := bo
	if g != nil {
		got = ExecImpl(b, b.ToCur[ctx], g, x.Env.ImplSettings(b))
	}
	fmt.Printf("doc:  %s\nctx:  %s\nexpr: %s\nwant: %s\ngot:  %s\n", rd.String(), ctx.Describe(), x.Expr, want, got)
	if SameValue(got, want, signZero) && !IsPanicErr(got) {
		return ""
	}
	return fmt.Sprintf("expected %s, implementation returned %s", want, got)
}
