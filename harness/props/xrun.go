package props

import (
	"fmt"

	"xv/adoc"
	"xv/impl"
	"xv/refxp"
	"xv/run"
)

// xrunner evaluates expression universes over document universes on both the
// implementation and the reference.
type xrunner struct {
	c        *run.Check
	kind     string
	env      EnvSpec
	signZero bool
	local    []*xlocal
	envFor   func(d *adoc.Doc) EnvSpec // per-document environment (variables holding nodes); nil = env
	// quirkEnv, when set, returns the reference environment with the open
	// known-finding quirks switched on; attribute() names the finding.
	known func(x XCase, got Outcome, d *adoc.Doc, ctx *adoc.Node, e refExpr) string
	// extra, when set, is an additional oracle evaluated on the
	// implementation's outcome after it agreed with the reference as a value;
	// it returns "" or a description of the violated requirement.
	extra func(d *adoc.Doc, ctx *adoc.Node, e refExpr, got, want Outcome, env EnvSpec) string
}

func newXRunner(c *run.Check, kind string, env EnvSpec) *xrunner {
	r := &xrunner{c: c, kind: kind, env: env}
	for i := 0; i < run.Workers(); i++ {
		r.local = append(r.local, &xlocal{distinct: map[string]struct{}{}})
	}
	return r
}

// xlocal holds per-worker counters (merged by flush) to keep the hot loop
// free of shared-memory contention.
type xlocal struct {
	evals    int64
	distinct map[string]struct{}
}

// flush merges the per-worker counters into the check.
func (r *xrunner) flush() {
	for _, l := range r.local {
		r.c.Evaluations.Add(l.evals)
		l.evals = 0
		for k := range l.distinct {
			r.c.Distinct(k)
		}
		l.distinct = map[string]struct{}{}
	}
}

func ctxKindName(n *adoc.Node) string { return n.Kind.String() }

// runGrid evaluates every expression on every document (generated on demand
// by gen) from every context node accepted by ctxOK. Work is cut into
// (document chunk x expression chunk) jobs so that neither compiled queries
// nor cursor trees outlive a job or are shared between goroutines.
func (r *xrunner) runGrid(nd int, gen func(i int) *adoc.Doc, exprs []refExpr, ctxOK func(*adoc.Node) bool) {
	const docChunk, exprChunk = 128, 96
	type job struct{ d0, d1, e0, e1 int }
	var jobs []job
	for d0 := 0; d0 < nd; d0 += docChunk {
		for e0 := 0; e0 < len(exprs); e0 += exprChunk {
			jobs = append(jobs, job{d0, min(d0+docChunk, nd), e0, min(e0+exprChunk, len(exprs))})
		}
	}
	run.ParallelW(len(jobs), func(w, ji int) {
		if (!triage && r.c.Violations() > 0) || r.c.TimeUp() {
			return
		}
		j := jobs[ji]
		cache := newExprCache()
		for di := j.d0; di < j.d1; di++ {
			r.runDoc(w, cache, gen(di), exprs[j.e0:j.e1], ctxOK)
			if !triage && r.c.Violations() > 0 {
				return
			}
		}
	})
	r.flush()
}

// runDoc evaluates exprs from all context nodes of d accepted by ctxOK.
func (r *xrunner) runDoc(w int, cache *exprCache, d *adoc.Doc, exprs []refExpr, ctxOK func(*adoc.Node) bool) {
	b, err := impl.Bind(d)
	if err != nil {
		r.c.Violation(map[string]interface{}{"kind": r.kind + "/bind", "doc": d.String(), "events": impl.Events(d)}, "cannot bind document "+d.String()+": "+err.Error())
		return
	}
	rd := b.Doc // read-back document: namespace/attribute order as exposed by the implementation
	env := r.env
	if r.envFor != nil {
		env = r.envFor(rd)
	}
	renv := env.RefEnv(rd)
	settings := env.ImplSettings(b)
	loc := r.local[w]
	for _, ctx := range rd.Nodes {
		if ctxOK != nil && !ctxOK(ctx) {
			continue
		}
		cur := b.ToCur[ctx]
		for _, e := range exprs {
			loc.evals++
			if env.rec != nil {
				env.rec.reset()
			}
			var want Outcome
			if e.Err != nil {
				want = Outcome{Err: true, ErrText: "syntax: " + e.Err.Error()}
			} else {
				want = RefOutcome(refxp.Eval(e.AST, ctx, renv))
			}
			g, bo := cache.get(e.Text)
			var got Outcome
			if g == nil {
				got = bo
			} else {
				got = ExecImpl(b, cur, g, settings)
			}
			extraMsg := ""
			if SameValue(got, want, r.signZero) && !IsPanicErr(got) {
				if r.extra != nil {
					extraMsg = r.extra(rd, ctx, e, got, want, env)
				}
				if extraMsg == "" {
					if !want.Err && !(want.Type == "node-set" && len(want.Nodes) == 0) {
						loc.distinct[e.Text+"|"+ctxKindName(ctx)+"|"+shortOutcome(want)] = struct{}{}
					}
					continue
				}
			}
			x := MakeXCase(r.kind, rd, ctx, e.Text, env, want, got)
			x.Extra = extraMsg
			if r.known != nil {
				if id := r.known(x, got, rd, ctx, e); id != "" {
					r.c.Known(id, fmt.Sprintf("%s from %s in %s", e.Text, ctx.Describe(), rd.String()))
					continue
				}
			}
			report(r.c, e.Text+" from "+ctxKindName(ctx), x)
			if !triage && r.c.Violations() >= 5 {
				return
			}
		}
	}
}

func shortOutcome(o Outcome) string {
	switch o.Type {
	case "node-set":
		return fmt.Sprintf("n%d", len(o.Nodes))
	case "number":
		return "#" + o.NumS
	case "string":
		if len(o.Str) > 12 {
			return "s" + o.Str[:12]
		}
		return "s" + o.Str
	case "boolean":
		return fmt.Sprint(o.Bool)
	}
	return "?"
}

// replayX re-runs a stored XCase from scratch.
func replayX(x XCase, signZero bool) string {
	_, b, err := x.Rebuild()
	if err != nil {
		return "cannot rebuild document: " + err.Error()
	}
	rd := b.Doc
	ctx := rd.Resolve(x.Ctx)
	if ctx == nil {
		return "context node not found"
	}
	ast, perr := refxp.Parse(x.Expr, refxp.Options{})
	var want Outcome
	if perr != nil {
		want = Outcome{Err: true, ErrText: "syntax: " + perr.Error()}
	} else {
		want = RefOutcome(refxp.Eval(ast, ctx, x.Env.RefEnv(rd)))
	}
	g, bo := BuildImpl(x.Expr)
	got := bo
	if g != nil {
		got = ExecImpl(b, b.ToCur[ctx], g, x.Env.ImplSettings(b))
	}
	fmt.Printf("doc:  %s\nctx:  %s\nexpr: %s\nwant: %s\ngot:  %s\n", rd.String(), ctx.Describe(), x.Expr, want, got)
	if SameValue(got, want, signZero) && !IsPanicErr(got) {
		return ""
	}
	return fmt.Sprintf("expected %s, implementation returned %s", want, got)
}
