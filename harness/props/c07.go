package props

import (
	"encoding/json"
	"fmt"
	"math"
	"unicode/utf8"

	"xv/run"
)

// ---- C07: string functions operate on Unicode characters -------------------------

var c07Gamma = []string{"a", "b", " ", "\t", "\n", "\r", "é", "é", "😀", " ", "　"}

func c07Strings(alpha []string, maxLen int) []string {
	out := []string{""}
	prev := []string{""}
	for l := 1; l <= maxLen; l++ {
		var next []string
		for _, p := range prev {
			for _, a := range alpha {
				next = append(next, p+a)
			}
		}
		out = append(out, next...)
		prev = next
	}
	return out
}

func c07Judge(e refExpr, vals []VarSpec, got, want Outcome) string {
	if got.Panic != "" {
		return "panic escaped: " + got.Panic
	}
	if IsPanicErr(got) {
		return "internal 'xpath query panic' error"
	}
	if got.Err && !want.Err {
		return "function failed for these arguments"
	}
	if got.Type == "string" && !utf8.ValidString(got.Str) {
		return "result is not valid UTF-8"
	}
	if !SameValue(got, want, false) {
		return "differs from XPath 1.0 section 4.2"
	}
	return ""
}

func C07(c *run.Check) {
	defer finishTriage()
	maxLen := 2
	if !c.Quick() {
		maxLen = 3
	}
	strs := c07Strings(c07Gamma, maxLen)
	d := vdoc([]string{"aé😀 b", "  x  y  "})
	r := &vrunner{c: c, kind: "C07", judge: c07Judge}
	workers := make([]*vworker, run.Workers())
	wk := func(w int) *vworker {
		if workers[w] == nil {
			workers[w] = newVWorker(d)
		}
		return workers[w]
	}
	pairF := mustParse([]string{"concat($s,$t)", "starts-with($s,$t)", "contains($s,$t)", "substring-before($s,$t)", "substring-after($s,$t)", "concat($s,'|',$t)", "string-length(concat($s,$t))"})
	n := len(strs)
	run.ParallelW(n*n, func(w, i int) {
		if (!triage && c.Violations() > 0) || c.TimeUp() {
			return
		}
		s, t := strVar("s", strs[i/n]), strVar("t", strs[i%n])
		for _, e := range pairF {
			c.Evaluations.Add(1)
			if r.one(wk(w), "/", e, []VarSpec{s, t}) && i%97 == 0 {
				c.Distinct(e.Text + "|" + s.Str + "|" + t.Str)
			}
		}
	})
	// substring(s,p,l), substring(s,p)
	subAlpha := []string{"a", "é", "😀", "é"}
	subStrs := c07Strings(subAlpha, 3)
	if !c.Quick() {
		subStrs = c07Strings(subAlpha, 4)
	}
	nums := []float64{math.NaN(), math.Inf(1), math.Inf(-1), -1, 0, 0.4, 0.5, 1, 1.5, 2, 2.5, 3, 4, 1e10, -1e10, -0.5, 1.4999}
	sub3 := mustParse([]string{"substring($s,$p,$l)"})[0]
	sub2 := mustParse([]string{"substring($s,$p)"})[0]
	type sj struct {
		s    string
		p, l float64
	}
	var sjobs []sj
	for _, s := range subStrs {
		for _, p := range nums {
			for _, l := range nums {
				sjobs = append(sjobs, sj{s, p, l})
			}
		}
	}
	known := run.Open("C06-round-negative-tie")
	r.known = func(e refExpr, vals []VarSpec, got, want Outcome) string {
		// substring() rounds its position/length arguments with round(); the
		// pinned negative-tie rounding cannot change any result here because all
		// tie arguments in the alphabet are >= -0.5. Nothing to attribute.
		_ = known
		return ""
	}
	run.ParallelW(len(sjobs), func(w, i int) {
		if (!triage && c.Violations() > 0) || c.TimeUp() {
			return
		}
		j := sjobs[i]
		c.Evaluations.Add(1)
		if r.one(wk(w), "/", sub3, []VarSpec{strVar("s", j.s), numVar("p", j.p), numVar("l", j.l)}) && i%13 == 0 {
			c.Distinct(fmt.Sprintf("sub3|%s|%v|%v", j.s, j.p, j.l))
		}
		if i%len(nums) == 0 {
			c.Evaluations.Add(1)
			r.one(wk(w), "/", sub2, []VarSpec{strVar("s", j.s), numVar("p", j.p)})
		}
	})
	// translate(s,f,t)
	trAlpha := []string{"a", "b", "c", "é"}
	trS := c07Strings(trAlpha, 2)
	trFT := c07Strings(trAlpha[:3], 3)                       // second/third argument: repeats followed by new characters need length 3
	trFT = append(trFT, "é", "éa", "aé", "éé", "abé", "éab") // multi-byte replacement characters shorter than the second argument
	if !c.Quick() {
		trS = c07Strings(trAlpha, 3)
		trFT = c07Strings(trAlpha, 3)
	}
	trStrs := trFT
	tr := mustParse([]string{"translate($s,$f,$t)"})[0]
	m := len(trFT)
	run.ParallelW(len(trS)*m*m, func(w, i int) {
		if (!triage && c.Violations() > 0) || c.TimeUp() {
			return
		}
		c.Evaluations.Add(1)
		if r.one(wk(w), "/", tr, []VarSpec{strVar("s", trS[i/(m*m)]), strVar("f", trFT[(i/m)%m]), strVar("t", trFT[i%m])}) && i%31 == 0 {
			c.Distinct(fmt.Sprintf("tr|%d", i))
		}
	})
	// normalize-space, string-length
	nsAlpha := []string{"a", " ", "\t", "\n", "\r", " ", " "}
	nsLen := 4
	if !c.Quick() {
		nsLen = 5
	}
	nsStrs := c07Strings(nsAlpha, nsLen)
	single := mustParse([]string{"normalize-space($s)", "string-length($s)", "string-length(normalize-space($s))"})
	run.ParallelW(len(nsStrs), func(w, i int) {
		if (!triage && c.Violations() > 0) || c.TimeUp() {
			return
		}
		for _, e := range single {
			c.Evaluations.Add(1)
			if r.one(wk(w), "/", e, []VarSpec{strVar("s", nsStrs[i])}) && i%7 == 0 {
				c.Distinct(fmt.Sprintf("%s|%d", e.Text, i))
			}
		}
	})
	run.ParallelW(len(strs), func(w, i int) {
		for _, e := range single {
			c.Evaluations.Add(1)
			r.one(wk(w), "/", e, []VarSpec{strVar("s", strs[i])})
		}
	})
	// zero-argument forms from every context node; literal spellings
	zero := mustParse([]string{"string-length()", "normalize-space()", "string()", "/r/e[1]/string-length()", "/r/e[2]/normalize-space()", "string-length(/r/e[1])",
		"concat('a','b','c')", "concat('é','😀')", "substring('aé😀b',2,2)", "substring('12345',1.5,2.6)", "substring('12345',0,3)", "substring('12345',0 div 0,3)", "substring('12345',1,0 div 0)",
		"substring('12345',-42,1 div 0)", "substring('12345',-1 div 0,1 div 0)", "translate('bar','abc','ABC')", "translate('--aaa--','abc-','ABC')", "translate('aba','ab','ba')", "translate('é','é','e')",
		"translate('abc','aa','xy')", "normalize-space('  a  b  ')", "normalize-space(' a ')", "string-length('😀')", "string-length('é')", "contains('','')", "starts-with('a','')",
		"substring-before('a😀b','😀')", "substring-after('a😀b','😀')", "substring-after('abc','')", "substring-before('abc','')", "substring('abc',2)", "substring('abc',0)", "substring('abc',-1,3)"})
	for _, path := range []string{"/", "/0", "/0/0", "/0/1", "/0/0/0"} {
		for _, e := range zero {
			c.Evaluations.Add(1)
			if r.oneLit(wk(0), path, e) {
				c.Distinct(e.Text + path)
			}
		}
	}
	c.Sample(map[string]string{"expr": "substring($s,$p,$l)", "s": "aé😀", "p": "1.5", "l": "2.5"})
	c.Sample(map[string]string{"expr": "translate($s,$f,$t)", "s": "abé", "f": "ab", "t": "b"})
	c.Rule = fmt.Sprintf("character alphabet {a,b,SP,TAB,LF,CR,é,e+U+0301,U+1F600,U+00A0,U+3000}: all strings of length <=%d (%d) in ALL pairs through concat/starts-with/contains/substring-before/substring-after; substring(s,p,l)/substring(s,p) for %d strings x %d x %d numeric arguments (NaN, +-Inf, fractions, negatives, huge); translate over all triples of %d strings (overlapping maps, repeats, short third argument); normalize-space/string-length over %d whitespace strings; zero-argument forms from 5 context nodes; reference = rune-based implementations; every string result must be valid UTF-8; non-trivial = distinct sampled (function, arguments)", maxLen, len(strs), len(subStrs), len(nums), len(nums), len(trStrs), len(nsStrs))
	c.Assume("rune-based reference implementations in refxp (funcs.go)")
}

func init() {
	Registry["C07"] = Prop{"exploration", C07}
	replayers["C07"] = func(raw json.RawMessage) string {
		var vc vcase
		json.Unmarshal(raw, &vc)
		return replayV(vc, false, c07Judge)
	}
}
