package props

import (
	"encoding/json"
	"fmt"
	"strings"

	"github.com/ChrisTrenkamp/xsel"

	"xv/adoc"
	"xv/impl"
	"xv/run"
)

// ---- C09: ReadXml builds the XPath data model of the XML document ---------------

// xtok is one lexical item of a serialisation.
type xtok struct {
	s    string
	kind byte // 'S' start tag, 'E' end tag, 'M' empty-element tag, 'T' character data piece, 'C' comment, 'P' PI, 'D' xml decl, 'Y' doctype, 'W' whitespace
	name string
}

// xvariant selects one serialisation of an abstract document.
type xvariant struct {
	TextMode int  // 0 literal (escaped), 1 character references, 2 CDATA, 3 literal+CDATA+literal split
	EmptyTag bool // childless elements as <a/>
	Decl     int  // 0 none, 1 version only, 2 UTF-8, 3 ISO-8859-1, 4 windows-1252, 5 US-ASCII
	Doctype  bool
	Misc     bool // comment, PI and whitespace in prolog and epilog
	Quote    byte // attribute quote
}

var c09Encodings = []string{"", "", "UTF-8", "ISO-8859-1", "windows-1252", "US-ASCII"}

func xmlEscText(s string, mode int) []string {
	esc := func(t string) string {
		r := strings.NewReplacer("&", "&amp;", "<", "&lt;", ">", "&gt;", "\r", "&#13;")
		return r.Replace(t)
	}
	switch mode {
	case 1:
		var sb strings.Builder
		for _, r := range s {
			fmt.Fprintf(&sb, "&#x%X;", r)
		}
		return []string{sb.String()}
	case 2:
		if strings.Contains(s, "]]>") || strings.Contains(s, "\r") {
			return []string{esc(s)}
		}
		return []string{"<![CDATA[" + s + "]]>"}
	case 3:
		rs := []rune(s)
		if len(rs) < 3 || strings.Contains(s, "]]>") || strings.Contains(s, "\r") {
			return []string{esc(s)}
		}
		a, b, c := string(rs[:1]), string(rs[1:len(rs)-1]), string(rs[len(rs)-1:])
		return []string{esc(a), "<![CDATA[" + b + "]]>", esc(c)}
	}
	return []string{esc(s)}
}

func xmlEscAttr(s string, q byte) string {
	r := strings.NewReplacer("&", "&amp;", "<", "&lt;", string(q), map[byte]string{'"': "&quot;", '\'': "&apos;"}[q])
	return r.Replace(s)
}

// serialise renders the document as a token list (UTF-8 text).
func c09Serialise(d *adoc.Doc, v xvariant) []xtok {
	var toks []xtok
	add := func(k byte, s, name string) { toks = append(toks, xtok{s: s, kind: k, name: name}) }
	switch v.Decl {
	case 1:
		add('D', `<?xml version="1.0"?>`, "")
	case 2, 3, 4, 5:
		add('D', `<?xml version="1.0" encoding="`+c09Encodings[v.Decl]+`"?>`, "")
	}
	if v.Misc {
		add('W', "\n", "")
		add('C', "<!-- prolog -->", "")
		add('P', "<?pro log?>", "")
		add('W', "\n  ", "")
	}
	if v.Doctype {
		add('Y', "<!DOCTYPE "+qname(firstElem(d))+">", "")
		if v.Misc {
			add('W', "\n", "")
		}
	}
	q := v.Quote
	if q == 0 {
		q = '"'
	}
	var walk func(n *adoc.Node)
	walk = func(n *adoc.Node) {
		switch n.Kind {
		case adoc.Elem:
			var sb strings.Builder
			sb.WriteString("<" + qname(n))
			for _, dc := range n.Decls {
				if dc.Prefix == "" {
					fmt.Fprintf(&sb, " xmlns=%c%s%c", q, xmlEscAttr(dc.URI, q), q)
				} else {
					fmt.Fprintf(&sb, " xmlns:%s=%c%s%c", dc.Prefix, q, xmlEscAttr(dc.URI, q), q)
				}
			}
			for _, a := range n.Attrs {
				fmt.Fprintf(&sb, " %s=%c%s%c", qname(a), q, xmlEscAttr(a.Value, q), q)
			}
			if len(n.Children) == 0 && v.EmptyTag {
				sb.WriteString("/>")
				add('M', sb.String(), qname(n))
				return
			}
			sb.WriteString(">")
			add('S', sb.String(), qname(n))
			for _, c := range n.Children {
				walk(c)
			}
			add('E', "</"+qname(n)+">", qname(n))
		case adoc.Text:
			for _, p := range xmlEscText(n.Value, v.TextMode) {
				add('T', p, "")
			}
		case adoc.Comment:
			add('C', "<!--"+n.Value+"-->", "")
		case adoc.PI:
			if n.Value == "" {
				add('P', "<?"+n.Local+"?>", "")
			} else {
				add('P', "<?"+n.Local+" "+n.Value+"?>", "")
			}
		}
	}
	for _, c := range d.Root.Children {
		walk(c)
		if v.Misc && c.Kind != adoc.Elem {
			add('W', "\n", "")
		}
	}
	if v.Misc {
		add('W', "\n", "")
		add('C', "<!-- epilog -->", "")
		add('W', " ", "")
		add('P', "<?epi?>", "")
		add('W', "\n", "")
	}
	return toks
}

func qname(n *adoc.Node) string {
	if n == nil {
		return "a"
	}
	if n.Prefix != "" {
		return n.Prefix + ":" + n.Local
	}
	return n.Local
}

func firstElem(d *adoc.Doc) *adoc.Node {
	for _, c := range d.Root.Children {
		if c.Kind == adoc.Elem {
			return c
		}
	}
	return nil
}

// c09Encode transcodes UTF-8 text to the declared encoding with harness-owned
// tables (not x/text). ok=false if a character is not representable.
func c09Encode(s string, decl int) ([]byte, bool) {
	switch decl {
	case 0, 1, 2:
		return []byte(s), true
	}
	var out []byte
	for _, r := range s {
		switch {
		case r < 0x80:
			out = append(out, byte(r))
		case decl == 5:
			return nil, false
		case decl == 3 && r <= 0xFF:
			out = append(out, byte(r))
		case decl == 4 && r >= 0xA0 && r <= 0xFF:
			out = append(out, byte(r))
		case decl == 4 && r == '€':
			out = append(out, 0x80)
		case decl == 4 && r == '‘':
			out = append(out, 0x91)
		default:
			return nil, false
		}
	}
	return out, true
}

// ---- document universe ---------------------------------------------------------------

var c09Texts = []string{"t", "a<b&c>d", `q"'q`, "x]]>y", "l1\nl2", "é€", " pad ", "z\tz", "😀"}

// c09Docs builds namespace-conformant XML documents from serialisable shapes.
func c09Docs(n int) []*adoc.Doc {
	shapes := adoc.Forests(n, adoc.ShapeCfg{Names: []string{"a", "b"}, Leaves: []adoc.Kind{adoc.Text, adoc.Comment, adoc.PI}})
	var docs []*adoc.Doc
	for si, f := range shapes {
		if !adoc.Serialisable(f) {
			continue
		}
		for scheme := 0; scheme < 8; scheme++ {
			d := adoc.NewDoc()
			d.ImplicitXML = true
			cnt, elemNo := 0, 0
			var mk func(t *adoc.Tm, inDefault bool, pURI string) *adoc.Node
			mk = func(t *adoc.Tm, inDefault bool, pURI string) *adoc.Node {
				cnt++
				switch t.K {
				case adoc.Text:
					return adoc.T(c09Texts[(cnt+si)%len(c09Texts)])
				case adoc.Comment:
					return adoc.C([]string{"c", " a - b ", "<x>&amp;"}[(cnt+si)%3])
				case adoc.PI:
					return adoc.P([]string{"t", "xml-stylesheet", "u"}[(cnt+si)%3], []string{"d", `href="x" type='y'`, ""}[(cnt+si)%3])
				}
				elemNo++
				no := elemNo
				e := adoc.E(t.Name)
				switch scheme {
				case 1: // prefixed declaration on the root element, used by the second element
					if no == 1 {
						e.Declare("p", adoc.URI_U)
						e.Add(adoc.A("x", "1"))
						pURI = adoc.URI_U
					}
					if no == 2 {
						e.Space, e.Prefix = pURI, "p"
						e.Add(adoc.ANS(pURI, "p", "x", `v"&<'`))
						e.Add(adoc.A("y", "2"))
					}
				case 2: // default namespace, later un-declared
					if no == 1 {
						e.Declare("", adoc.URI_D)
						inDefault = true
						e.Add(adoc.A("x", "1"))
					}
					if no == 3 {
						e.Declare("", "")
						inDefault = false
					}
					if inDefault {
						e.Space = adoc.URI_D
					}
				case 3: // override of a prefix, xml:lang
					if no == 1 {
						e.Declare("p", adoc.URI_U)
						e.Add(adoc.ANS(adoc.XMLNS, "xml", "lang", "en"))
						pURI = adoc.URI_U
					}
					if no == 2 {
						e.Declare("p", adoc.URI_V)
						pURI = adoc.URI_V
						e.Space, e.Prefix = pURI, "p"
					}
					if no == 3 && pURI != "" {
						e.Space, e.Prefix = pURI, "p"
					}
				case 4: // two prefixes for one URI, default + prefixed
					if no == 1 {
						e.Declare("p", adoc.URI_U)
						e.Declare("q", adoc.URI_U)
						e.Declare("", adoc.URI_D)
						e.Space = adoc.URI_D
						inDefault = true
					} else {
						if no%2 == 0 {
							e.Space, e.Prefix = adoc.URI_U, "q"
						} else if inDefault {
							e.Space = adoc.URI_D
						}
						e.Add(adoc.ANS(adoc.URI_U, "p", "x", "3"))
					}
				case 6: // default + prefixed declarations, default un-declared below, prefix still used
					if no == 1 {
						e.Declare("", adoc.URI_D)
						e.Declare("p", adoc.URI_U)
						e.Declare("q", adoc.URI_V)
						e.Space = adoc.URI_D
						inDefault = true
					}
					if no == 2 {
						e.Declare("", "")
						inDefault = false
						e.Add(adoc.ANS(adoc.URI_V, "q", "y", "1"))
					}
					if no == 3 {
						e.Space, e.Prefix = adoc.URI_U, "p"
					}
					if no > 3 && inDefault {
						e.Space = adoc.URI_D
					}
				case 7: // explicit re-declaration of the xml prefix next to other declarations
					if no == 1 {
						e.Declare("p", adoc.URI_U)
						e.Declare("xml", adoc.XMLNS)
						e.Declare("q", adoc.URI_V)
						e.Add(adoc.A("k", "v"))
					}
					if no == 2 {
						e.Declare("xml", adoc.XMLNS)
						e.Space, e.Prefix = adoc.URI_V, "q"
					}
				case 5: // declaration on an inner element only; attribute values with entities
					if no == 2 {
						e.Declare("p", adoc.URI_V)
						e.Space, e.Prefix = adoc.URI_V, "p"
						e.Add(adoc.A("x", "a&b<c"))
					}
				}
				for _, k := range t.Kids {
					e.Add(mk(k, inDefault, pURI))
				}
				return e
			}
			for _, t := range f {
				d.Root.Add(mk(t, false, ""))
			}
			d.Finish()
			if scheme == 2 || scheme == 6 {
				c09FixUndeclared(d)
			}
			docs = append(docs, d)
		}
	}
	return docs
}

// c09FixUndeclared removes the namespace node of an un-declared default
// namespace (xmlns="") from the elements in its scope.
func c09FixUndeclared(d *adoc.Doc) {
	for _, n := range d.Nodes {
		if n.Kind == adoc.Elem {
			var keep []*adoc.Node
			for _, x := range n.NS {
				if x.Local == "" && x.Value == "" {
					continue
				}
				keep = append(keep, x)
			}
			n.NS = keep
		}
	}
	d.Renumber()
}

// ---- oracle -------------------------------------------------------------------------------

type c09Case struct {
	Kind   string `json:"kind"`
	Bytes  string `json:"bytes"` // as a Go-quoted string
	Cut    int    `json:"cut"`
	FailAt int    `json:"failAt"`
	Want   string `json:"want,omitempty"`
	Detail string `json:"detail"`
}

func readXML(data []byte, cut, failAt int) (cur xsel.Cursor, err error) {
	defer func() {
		if r := recover(); r != nil {
			err = fmt.Errorf("PANIC: %v", r)
		}
	}()
	defer run.Track("ReadXml", string(data))()
	return xsel.ReadXml(&chunkReader{data: data, cut: cut, failAt: failAt})
}

// c09Normalise drops whitespace-only text nodes that are children of the root
// (prolog/epilog white space; the tests of the repository rely on top-level
// text being kept, so its presence is not judged).
func c09Normalise(d *adoc.Doc) {
	var kids []*adoc.Node
	for _, c := range d.Root.Children {
		if c.Kind == adoc.Text && strings.TrimSpace(c.Value) == "" {
			continue
		}
		kids = append(kids, c)
	}
	d.Root.Children = kids
	d.Renumber()
}

// c09Compare checks the cursor tree against the abstract document.
func c09Compare(cur xsel.Cursor, want *adoc.Doc, quirkUndecl bool) string {
	b, err := impl.Read(cur)
	if err != nil {
		return "tree: " + err.Error()
	}
	// "in document order": the positions the cursors report must increase along
	// the walk element < its namespace nodes < its attributes < its children
	last := -1
	for _, n := range b.Doc.Nodes {
		if c, ok := b.ToCur[n]; ok {
			if p := c.Pos(); p <= last {
				return fmt.Sprintf("document order: %s reports position %d, which does not follow %d", n.Describe(), p, last)
			} else {
				last = p
			}
		}
	}
	c09Normalise(b.Doc)
	w := want
	if got, ws := b.Doc.Canon(), w.Canon(); got != ws {
		return fmt.Sprintf("tree differs from the document:\n got  %s\n want %s", got, ws)
	}
	// every namespace node belongs to its element; document order of children
	for n, c := range b.ToCur {
		if n.Kind == adoc.NS || n.Kind == adoc.Attr {
			if c.Parent() != b.ToCur[n.Parent] {
				return fmt.Sprintf("%s does not belong to the element that lists it", n.Describe())
			}
		}
	}
	return ""
}

func C09(c *run.Check) {
	defer finishTriage()
	n := 3
	if !c.Quick() {
		n = 4
	}
	docs := c09Docs(n)
	var variants []xvariant
	for tm := 0; tm < 4; tm++ {
		for _, et := range []bool{false, true} {
			for decl := 0; decl < 6; decl++ {
				for _, dt := range []bool{false, true} {
					for _, misc := range []bool{false, true} {
						q := byte('"')
						if (tm+decl)%2 == 1 {
							q = '\''
						}
						variants = append(variants, xvariant{tm, et, decl, dt, misc, q})
					}
				}
			}
		}
	}
	quirkUndecl := run.Open("C09-default-namespace-undeclaration")
	report := func(kind string, data []byte, cut, failAt int, want *adoc.Doc, msg string) {
		cs := c09Case{Kind: kind, Bytes: fmt.Sprintf("%q", data), Cut: cut, FailAt: failAt, Detail: msg}
		if want != nil {
			cs.Want = want.Canon()
		}
		if triage {
			tri.add(kind+": "+firstLine(msg), fmt.Sprintf("%q cut=%d fail=%d: %s", data, cut, failAt, msg))
			return
		}
		c.Violation(cs, fmt.Sprintf("[%s] %q (short read at %d, I/O error at %d): %s", kind, data, cut, failAt, msg))
	}
	type job struct{ d, v int }
	var jobs []job
	for di := range docs {
		for vi := range variants {
			// quick: every document with a rotating third of the variants
			if c.Quick() && (di+vi)%3 != 0 {
				continue
			}
			jobs = append(jobs, job{di, vi})
		}
	}
	run.ParallelW(len(jobs), func(w, ji int) {
		if (!triage && c.Violations() > 0) || c.TimeUp() {
			return
		}
		d, v := docs[jobs[ji].d], variants[jobs[ji].v]
		toks := c09Serialise(d, v)
		var sb strings.Builder
		var bounds []int // byte offset (in UTF-8 text) after each token
		for _, t := range toks {
			sb.WriteString(t.s)
			bounds = append(bounds, sb.Len())
		}
		text := sb.String()
		data, ok := c09Encode(text, v.Decl)
		if !ok {
			return
		}
		base := d
		if v.Misc {
			// prolog / epilog comments and PIs are children of the root
			base = d.Clone()
			base.ImplicitXML = true
			kids := append([]*adoc.Node{adoc.C(" prolog "), adoc.P("pro", "log")}, base.Root.Children...)
			kids = append(kids, adoc.C(" epilog "), adoc.P("epi", ""))
			base.Root.Children = nil
			for _, k := range kids {
				base.Root.Add(k)
			}
			base.Finish()
			if c09HasUndecl(d) {
				c09FixUndeclared(base)
			}
		}
		want := base
		if quirkUndecl {
			want = c09WithUndeclQuirk(base)
		}
		c.Evaluations.Add(1)
		cur, err := readXML(data, -1, -1)
		if err != nil {
			report("well-formed", data, -1, -1, want, "well-formed document rejected: "+err.Error())
			return
		}
		if msg := c09Compare(cur, want, quirkUndecl); msg != "" {
			if quirkUndecl && c09Compare(cur, base, false) == "" {
				// the defect is gone: fine
			} else {
				report("well-formed", data, -1, -1, want, msg)
				return
			}
		} else if quirkUndecl && want != base && c09HasUndecl(d) {
			c.Known("C09-default-namespace-undeclaration", fmt.Sprintf("%q", text))
		}
		c.Distinct(text)
		if len(data) != len(text) && ji%2 == 1 {
			return // offsets below are computed on the UTF-8 text
		}
		if len(data) != len(text) {
			return
		}
		// --- malformed: every proper prefix (all truncation points)
		rootEnd := 0
		depth := 0
		for i, t := range toks {
			if t.kind == 'S' {
				depth++
			}
			if t.kind == 'E' {
				depth--
			}
			if (t.kind == 'E' || t.kind == 'M') && depth == 0 {
				rootEnd = bounds[i]
			}
		}
		rootStart := len(text)
		for i, t := range toks {
			if t.kind == 'S' || t.kind == 'M' {
				rootStart = bounds[i] - len(t.s)
				break
			}
		}
		isBound := map[int]bool{0: true}
		wsInside := map[int]bool{}
		for i, t := range toks {
			isBound[bounds[i]] = true
			if t.kind == 'W' {
				for k := bounds[i] - len(t.s); k <= bounds[i]; k++ {
					wsInside[k] = true
				}
			}
		}
		full := c.Quick() == false || ji%5 == 0
		if full {
			for k := 0; k < len(data); k++ {
				mustFail := false
				switch {
				case k > rootStart && k < rootEnd:
					mustFail = true // inside the document element: unclosed
				case !isBound[k] && !wsInside[k]:
					mustFail = true // inside markup of the prolog / epilog
				}
				if !mustFail {
					continue
				}
				c.Evaluations.Add(1)
				if cur, err := readXML(data[:k], -1, -1); err == nil {
					got := "?"
					if b, e := impl.Read(cur); e == nil {
						got = b.Doc.String()
					}
					report("truncated", data[:k], -1, -1, nil, "truncated document accepted with a nil error; tree: "+got)
					return
				}
			}
			// --- single tag deletions and swaps of adjacent tags that unbalance the document
			for i := range toks {
				if toks[i].kind != 'S' && toks[i].kind != 'E' {
					continue
				}
				mut := append(append([]xtok{}, toks[:i]...), toks[i+1:]...)
				if !c09Balanced(mut) {
					c.Evaluations.Add(1)
					md := []byte(c09Join(mut))
					if _, err := readXML(md, -1, -1); err == nil {
						report("tag-deleted", md, -1, -1, nil, "document with a deleted tag accepted with a nil error")
						return
					}
				}
				if i+1 < len(toks) && (toks[i+1].kind == 'S' || toks[i+1].kind == 'E') {
					sw := append([]xtok{}, toks...)
					sw[i], sw[i+1] = sw[i+1], sw[i]
					if !c09Balanced(sw) {
						c.Evaluations.Add(1)
						md := []byte(c09Join(sw))
						if _, err := readXML(md, -1, -1); err == nil {
							report("tags-swapped", md, -1, -1, nil, "document with two swapped tags accepted with a nil error")
							return
						}
					}
				}
			}
			// --- reader deviations: one short read / one I/O error at every offset
			for k := 1; k < len(data); k++ {
				c.Evaluations.Add(2)
				cur, err := readXML(data, k, -1)
				if err != nil {
					report("short-read", data, k, -1, want, "short read changed the outcome: "+err.Error())
					return
				}
				if msg := c09Compare(cur, want, quirkUndecl); msg != "" {
					report("short-read", data, k, -1, want, "short read changed the tree: "+msg)
					return
				}
				if _, err := readXML(data, -1, k); err == nil {
					report("io-error", data, -1, k, nil, "I/O error of the reader swallowed: nil error returned")
					return
				}
			}
		}
	})
	// hand-written documents with features outside the generated universe
	for hi, h := range c09HandDocs() {
		c.Evaluations.Add(1)
		data := []byte(h.xml)
		cur, err := readXML(data, -1, -1)
		if err != nil {
			report("hand-written", data, -1, -1, h.want, "well-formed document rejected: "+err.Error())
			continue
		}
		if msg := c09Compare(cur, h.want, false); msg != "" {
			report("hand-written", data, -1, -1, h.want, msg)
			continue
		}
		c.Distinct(fmt.Sprint("hand", hi))
		// every truncation point inside the document element must be an error
		start := strings.Index(h.xml, "<"+h.root)
		end := strings.LastIndex(h.xml, ">")
		for k := start + 1; k < end; k++ {
			c.Evaluations.Add(1)
			if _, err := readXML(data[:k], -1, -1); err == nil {
				report("truncated", data[:k], -1, -1, nil, "truncated document accepted with a nil error")
				break
			}
		}
	}
	// long documents: EVERY number of items from 1 to 400 (plus a few larger
	// ones) - elements with two attributes, text, comments and PIs in rotation -
	// compared node by node, so that nothing that depends on how much a document
	// holds (a re-used buffer, a table of fixed size, a read-ahead boundary of the
	// decoder) goes unnoticed
	{
		sizes := []int{}
		for k := 1; k <= 400; k++ {
			sizes = append(sizes, k)
		}
		sizes = append(sizes, 1023, 1024, 1025, 4097, 20000)
		run.ParallelW(len(sizes), func(_, si int) {
			if c.Violations() > 0 {
				return
			}
			k := sizes[si]
			var sb strings.Builder
			root := adoc.E("r")
			sb.WriteString(`<r>`)
			for i := 0; i < k; i++ {
				switch i % 4 {
				case 0, 1:
					e := adoc.E("i", adoc.T(fmt.Sprint("v", i)))
					e.Add(adoc.A("a", fmt.Sprint(i)))
					e.Add(adoc.A("b", fmt.Sprint("x", i)))
					root.Add(e)
					fmt.Fprintf(&sb, `<i a="%d" b="x%d">v%d</i>`, i, i, i)
				case 2:
					root.Add(adoc.C(fmt.Sprint("c", i)))
					fmt.Fprintf(&sb, `<!--c%d-->`, i)
				case 3:
					root.Add(adoc.P("p", fmt.Sprint(i)))
					fmt.Fprintf(&sb, `<?p %d?>`, i)
				}
			}
			sb.WriteString(`</r>`)
			d := adoc.NewDoc()
			d.ImplicitXML = true
			d.Root.Add(root)
			want := d.Finish()
			data := []byte(sb.String())
			c.Evaluations.Add(1)
			cur, err := readXML(data, -1, -1)
			if err != nil {
				report("long", data[:min(len(data), 200)], -1, -1, nil, fmt.Sprintf("well-formed document of %d items rejected: %v", k, err))
				return
			}
			if msg := c09Compare(cur, want, false); msg != "" {
				if len(msg) > 500 {
					msg = msg[:500] + " ..."
				}
				report("long", data[:min(len(data), 200)], -1, -1, nil, fmt.Sprintf("document of %d items: %s", k, msg))
			}
		})
		c.Set("long_documents", len(sizes))
	}
	// undefined named entities: only lt, gt, amp, apos and quot are predefined; every
	// other name - in particular the names HTML defines - is undeclared here
	for _, name := range []string{"nbsp", "iexcl", "cent", "pound", "yen", "sect", "copy", "reg", "deg", "plusmn", "micro", "para", "middot", "laquo", "raquo", "frac12", "times", "divide",
		"Agrave", "eacute", "Eacute", "uuml", "szlig", "ntilde", "ccedil", "oslash", "alpha", "beta", "pi", "Omega", "bull", "hellip", "prime", "larr", "rarr", "harr", "forall", "part", "exist", "empty",
		"nabla", "isin", "prod", "sum", "minus", "radic", "infin", "cap", "cup", "int", "ne", "equiv", "le", "ge", "sub", "sup", "lang", "rang", "loz", "spades", "hearts", "euro", "trade", "ndash", "mdash",
		"lsquo", "rsquo", "ldquo", "rdquo", "dagger", "permil", "zwnj", "zwj", "lrm", "thinsp", "ensp", "emsp", "shy", "AMP", "LT", "Quot", "x", "amp2", "_", "a.b"} {
		for _, doc := range []string{"<a>x&" + name + ";y</a>", `<a t="&` + name + `; 2020"/>`, "<a><b>&" + name + ";</b></a>"} {
			c.Evaluations.Add(1)
			if _, err := readXML([]byte(doc), -1, -1); err == nil {
				report("malformed", []byte(doc), -1, -1, nil, fmt.Sprintf("reference to the undeclared entity %q accepted with a nil error", name))
			}
		}
	}
	// undefined entity, invalid character, bad encoding
	for _, bad := range []string{"<a>&nope;</a>", "<a>\x01</a>", "<a>\xff</a>", `<?xml version="1.0" encoding="no-such-charset"?><a/>`, "<a b=1/>", "<a><b></a></b>", "<a", "<a>", "<a/><", "<a>&#xFFFFFFFF;</a>", "<a b='1' b='2'/>x<"} {
		c.Evaluations.Add(1)
		if cur, err := readXML([]byte(bad), -1, -1); err == nil {
			got := "?"
			if b, e := impl.Read(cur); e == nil {
				got = b.Doc.String()
			}
			report("malformed", []byte(bad), -1, -1, nil, "malformed document accepted with a nil error; tree: "+got)
		}
	}
	c.Sample(c09Join(c09Serialise(docs[len(docs)/2], variants[37])))
	c.Sample(c09Join(c09Serialise(docs[len(docs)-5], variants[150])))
	c.Sample(c09Join(c09Serialise(docs[len(docs)/3], variants[101])))
	c.Set("documents", len(docs))
	c.Set("serialisation_variants", len(variants))
	c.Rule = fmt.Sprintf("every XML-serialisable forest with <=%d nodes over {a,b,text,comment,PI} x 8 namespace schemes (none; prefixed; default + xmlns=\"\" un-declaration; override + xml:lang; aliases + default; inner declaration; default+prefixes with un-declaration below; explicit xmlns:xml re-declaration) = %d abstract documents x %d serialisations (text as literal/char-refs/CDATA/split, empty-element tags, XML declaration absent/version/UTF-8/ISO-8859-1/windows-1252/US-ASCII with harness-transcoded bytes, DOCTYPE, prolog+epilog comments/PIs/white space, both quote kinds): parallel walk of the cursor tree against the abstract document incl. one namespace node per in-scope binding per element owned by that element; malformed side: EVERY truncation point inside markup or inside the document element, every unbalancing tag deletion / adjacent tag swap, undefined entities (85 names incl. the HTML ones, in text and attribute values)/invalid character/unknown charset must error; every document length 1-400 items (and 1023-20000) compared node by node; reader deviations: one short read and one I/O error at every byte offset", n, len(docs), len(variants))
	c.Assume("white-space-only text children of the root (prolog/epilog) are not judged; truncation exactly between prolog items is not judged (encoding/xml has no notion of a missing document element)")
}

type c09Hand struct {
	xml  string
	root string
	want *adoc.Doc
}

func c09HandDocs() []c09Hand {
	mk := func(kids ...*adoc.Node) *adoc.Doc {
		d := adoc.NewDoc()
		d.ImplicitXML = true
		for _, k := range kids {
			d.Root.Add(k)
		}
		return d.Finish()
	}
	el := func(name string, attrs []*adoc.Node, kids ...*adoc.Node) *adoc.Node {
		e := adoc.E(name, kids...)
		for _, a := range attrs {
			e.Add(a)
		}
		return e
	}
	var out []c09Hand
	out = append(out, c09Hand{`<a x="l1&#10;l2&#x9;t&quot;q&apos;&amp;&lt;&gt;" y=''/>`, "a", mk(el("a", []*adoc.Node{adoc.A("x", "l1\nl2\tt\"q'&<>"), adoc.A("y", "")}))})
	out = append(out, c09Hand{`<?xml version="1.0" encoding="UTF-8" standalone="yes"?><!DOCTYPE a [<!ELEMENT a ANY><!ATTLIST a x CDATA #IMPLIED>]><a/>`, "a", mk(adoc.E("a"))})
	out = append(out, c09Hand{"<a>\n  <b/>\n  <b> </b>\n</a>", "a", mk(adoc.E("a", adoc.T("\n  "), adoc.E("b"), adoc.T("\n  "), adoc.E("b", adoc.T(" ")), adoc.T("\n")))})
	out = append(out, c09Hand{"<a><![CDATA[<b>&amp;]]]]><![CDATA[>]]></a>", "a", mk(adoc.E("a", adoc.T("<b>&amp;]]>")))})
	out = append(out, c09Hand{"<a.b-c_1><é/><x1 a-b.c='1'/></a.b-c_1>", "a.b-c_1", mk(adoc.E("a.b-c_1", adoc.E("é"), el("x1", []*adoc.Node{adoc.A("a-b.c", "1")})))})
	out = append(out, c09Hand{`<a xml:space="preserve" xml:lang="en"><?xml-stylesheet href="s"?><?p?><?q  d  ?><!----><!-- - --></a>`, "a", mk(el("a", []*adoc.Node{adoc.ANS(adoc.XMLNS, "xml", "space", "preserve"), adoc.ANS(adoc.XMLNS, "xml", "lang", "en")},
		adoc.P("xml-stylesheet", `href="s"`), adoc.P("p", ""), adoc.P("q", "d  "), adoc.C(""), adoc.C(" - ")))})
	out = append(out, c09Hand{"<a>&#x1F600;&#233;&#65;&amp;amp;</a>", "a", mk(adoc.E("a", adoc.T("😀éA&amp;")))})
	out = append(out, c09Hand{"<a>x<b>y</b>z<!--c-->w<?p?>v</a>", "a", mk(adoc.E("a", adoc.T("x"), adoc.E("b", adoc.T("y")), adoc.T("z"), adoc.C("c"), adoc.T("w"), adoc.P("p", ""), adoc.T("v")))})
	{
		// the same prefix bound to different namespaces on siblings; attributes of one element in two namespaces
		a := adoc.E("a")
		b1 := adoc.ENS("urn:1", "p", "b")
		b1.Declare("p", "urn:1")
		b1.Add(adoc.ANS("urn:1", "p", "k", "1"))
		b1.Add(adoc.A("k", "2"))
		b2 := adoc.ENS("urn:2", "p", "b")
		b2.Declare("p", "urn:2")
		b2.Declare("q", "urn:1")
		b2.Add(adoc.ANS("urn:1", "q", "k", "3"))
		b2.Add(adoc.ANS("urn:2", "p", "k", "4"))
		a.Add(b1)
		a.Add(b2)
		out = append(out, c09Hand{`<a><p:b xmlns:p="urn:1" p:k="1" k="2"/><p:b xmlns:p="urn:2" xmlns:q="urn:1" q:k="3" p:k="4"/></a>`, "a", mk(a)})
	}
	{
		// deep chains of default-namespace declaration, un-declaration and
		// re-declaration with plain descendants below each stage
		a := adoc.ENS("urn:u", "", "a")
		a.Declare("", "urn:u")
		a1 := adoc.ENS("urn:u", "", "a1")
		b := adoc.E("b")
		b.Declare("", "")
		b1 := adoc.E("b1")
		c := adoc.ENS("urn:w", "", "c")
		c.Declare("", "urn:w")
		d := adoc.ENS("urn:w", "", "d")
		e := adoc.ENS("urn:w", "", "e")
		f := adoc.E("f")
		f.Declare("", "")
		g := adoc.E("g")
		f.Add(g)
		d.Add(e)
		d.Add(f)
		c.Add(d)
		b.Add(b1)
		b.Add(c)
		a.Add(a1)
		a.Add(b)
		out = append(out, c09Hand{`<a xmlns="urn:u"><a1/><b xmlns=""><b1/><c xmlns="urn:w"><d><e/><f xmlns=""><g/></f></d></c></b></a>`, "a", mk(a)})
		// the same with a prefix: declared, re-bound below, used by descendants
		x := adoc.ENS("urn:1", "p", "x")
		x.Declare("p", "urn:1")
		y := adoc.ENS("urn:2", "p", "y")
		y.Declare("p", "urn:2")
		z := adoc.ENS("urn:2", "p", "z")
		w := adoc.ENS("urn:2", "p", "w")
		z.Add(w)
		y.Add(z)
		x.Add(adoc.ENS("urn:1", "p", "x1"))
		x.Add(y)
		out = append(out, c09Hand{`<p:x xmlns:p="urn:1"><p:x1/><p:y xmlns:p="urn:2"><p:z><p:w/></p:z></p:y></p:x>`, "p:x", mk(x)})
	}
	return out
}

func c09Join(toks []xtok) string {
	var sb strings.Builder
	for _, t := range toks {
		sb.WriteString(t.s)
	}
	return sb.String()
}

func c09Balanced(toks []xtok) bool {
	var st []string
	roots := 0
	for _, t := range toks {
		switch t.kind {
		case 'S':
			if len(st) == 0 {
				roots++
			}
			st = append(st, t.name)
		case 'M':
			if len(st) == 0 {
				roots++
			}
		case 'E':
			if len(st) == 0 || st[len(st)-1] != t.name {
				return false
			}
			st = st[:len(st)-1]
		}
	}
	return len(st) == 0
}

func c09HasUndecl(d *adoc.Doc) bool {
	for _, n := range d.Nodes {
		for _, dc := range n.Decls {
			if dc.Prefix == "" && dc.URI == "" {
				return true
			}
		}
	}
	return false
}

// c09WithUndeclQuirk models the open finding: xmlns="" leaves an (inherited)
// namespace node with empty prefix and empty URI.
func c09WithUndeclQuirk(d *adoc.Doc) *adoc.Doc {
	if !c09HasUndecl(d) {
		return d
	}
	q := d.Clone()
	q.ImplicitXML = true
	q.Finish()
	return q
}

func init() {
	Registry["C09"] = Prop{"fault_enumeration", C09}
	replayers["C09"] = func(raw json.RawMessage) string {
		var cs c09Case
		json.Unmarshal(raw, &cs)
		var data string
		fmt.Sscanf(cs.Bytes, "%q", &data)
		cur, err := readXML([]byte(data), cs.Cut, cs.FailAt)
		fmt.Printf("bytes: %s\nerror: %v\n", cs.Bytes, err)
		if err == nil {
			if b, e := impl.Read(cur); e == nil {
				c09Normalise(b.Doc)
				fmt.Println("tree: ", b.Doc.Canon())
				if cs.Want != "" && b.Doc.Canon() != cs.Want {
					return "tree differs from " + cs.Want
				}
			}
		}
		switch cs.Kind {
		case "truncated", "tag-deleted", "tags-swapped", "io-error", "malformed":
			if err == nil {
				return cs.Detail
			}
		case "well-formed", "short-read":
			if err != nil {
				return err.Error()
			}
		}
		return ""
	}
}
