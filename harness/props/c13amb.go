package props

import (
	"fmt"
	"reflect"
	"sort"
	"strings"
	"unsafe"

	"github.com/ChrisTrenkamp/xsel"

	"xv/impl"
	"xv/refxp"
	"xv/run"
)

// Parser-order exploration for C13 ("BuildExpr of the same string always
// yields an equivalent query"). The GLL parser iterates a Go map while it
// builds the parse forest, so the ORDER of the alternatives recorded for an
// ambiguous nonterminal occurrence can differ from build to build, and the
// evaluator takes the first acceptable alternative. Instead of sampling the
// runtime's random order, every ambiguous alternative list of a built query is
// rotated so that each alternative comes first once (all single deviations
// from the order the build produced); the query must return the same results.

// ambiguousLists returns accessors for every alternative list with >1 entry.
func ambiguousLists(g *xsel.Grammar) (keys []reflect.Value, m reflect.Value, ok bool) {
	defer func() {
		if r := recover(); r != nil {
			ok = false
		}
	}()
	b := reflect.ValueOf(g.BSR).Elem() // bsr.BSR
	setF := b.FieldByName("set")
	if !setF.IsValid() {
		return nil, reflect.Value{}, false
	}
	setF = reflect.NewAt(setF.Type(), unsafe.Pointer(setF.UnsafeAddr())).Elem()
	set := setF.Elem() // bsr.Set
	mf := set.FieldByName("ntSlotEntries")
	if !mf.IsValid() || mf.Kind() != reflect.Map {
		return nil, reflect.Value{}, false
	}
	mf = reflect.NewAt(mf.Type(), unsafe.Pointer(mf.UnsafeAddr())).Elem()
	for _, k := range mf.MapKeys() {
		if mf.MapIndex(k).Len() > 1 {
			keys = append(keys, k)
		}
	}
	sort.Slice(keys, func(i, j int) bool { return fmt.Sprint(keys[i]) < fmt.Sprint(keys[j]) })
	return keys, mf, true
}

func c13ParserOrder(c *run.Check) {
	asts := c08ASTs(true)
	var texts []string
	seen := map[string]bool{}
	for _, a := range asts {
		t := refxp.Render(a, refxp.RenderOpt{})
		if !seen[t] {
			seen[t] = true
			texts = append(texts, t)
		}
	}
	// expressions known to be ambiguous in the generated grammar
	texts = append(texts, "/*/*", "1 + /*/a", "//b | /*/child", "/*", "/* * 2", "name()", "//a/name()", "count(//a)/..", "string(/*/*)", "/*/* | /*", "-/*/*", "/*[/*/*]", "/* = /*/*", "f()", "//*[name() = 'a']/name()")
	var lists, rotations, ambiguousExprs int64
	results := make([][3]int64, len(texts))
	run.ParallelW(len(texts), func(w, i int) {
		if c.Violations() > 0 || c.TimeUp() {
			return
		}
		text := texts[i]
		g, _ := BuildImpl(text)
		if g == nil {
			return
		}
		keys, m, ok := ambiguousLists(g)
		if !ok {
			// not a property violation: the exploration cannot be done on this tree
			c.Set("parser_order_exploration", "unavailable: cannot reach the parse forest of the compiled query by reflection (its layout changed); only repeated builds are compared")
			c.Exhaustive = false
			return
		}
		if len(keys) == 0 {
			return
		}
		results[i][0] = 1
		var docs []*impl.Binding
		for k := 0; k < 3; k++ {
			b, _ := impl.Bind(c08Doc(k))
			docs = append(docs, b)
		}
		eval := func() string {
			var outs []string
			for _, b := range docs {
				o := ExecImpl(b, b.Root, g, c08Env.ImplSettings(b))
				if o.Err {
					o.ErrText = ""
				}
				outs = append(outs, o.String())
			}
			return strings.Join(outs, " | ")
		}
		base := eval()
		for _, k := range keys {
			orig := m.MapIndex(k)
			n := orig.Len()
			results[i][1]++
			for rot := 1; rot < n; rot++ {
				perm := reflect.MakeSlice(orig.Type(), 0, n)
				for j := 0; j < n; j++ {
					perm = reflect.Append(perm, orig.Index((j+rot)%n))
				}
				m.SetMapIndex(k, perm)
				results[i][2]++
				c.Evaluations.Add(3)
				got := eval()
				m.SetMapIndex(k, orig)
				if got != base {
					c.Violation(map[string]interface{}{"kind": "parser-order", "expr": text, "list": fmt.Sprint(k), "rotation": rot, "baseline": base, "permuted": got},
						fmt.Sprintf("BuildExpr(%q): with the alternatives of %v recorded in another order (rotation %d of %d) the query returns %s instead of %s - the result depends on the parser's map-iteration order", text, k, rot, n, got, base))
					return
				}
			}
		}
	})
	for _, r := range results {
		ambiguousExprs += r[0]
		lists += r[1]
		rotations += r[2]
	}
	c.Set("parser_order_expressions", len(texts))
	c.Set("parser_order_ambiguous_expressions", ambiguousExprs)
	c.Set("parser_order_alternative_lists", lists)
	c.Set("parser_order_rotations_evaluated", rotations)
	c.Transitions.Add(rotations)
}
