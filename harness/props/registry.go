package props

import (
	"encoding/json"
	"fmt"
	"os"

	"xv/impl"
	"xv/run"
)

type Prop struct {
	Level string
	Run   func(c *run.Check)
}

var Registry = map[string]Prop{
	"C10": {"model_checking", C10},
}

// Sub holds internal subprocess entry points.
var Sub = map[string]func(args []string) int{}

type replayFile struct {
	Property string          `json:"property"`
	Summary  string          `json:"summary"`
	Case     json.RawMessage `json:"case"`
}

// Replay re-executes one stored case through a plain code path (no
// enumerator, no scheduler) and reports whether it still violates.
func Replay(path string) int {
	b, err := os.ReadFile(path)
	if err != nil {
		fmt.Fprintln(os.Stderr, err)
		return 2
	}
	var rf replayFile
	if err := json.Unmarshal(b, &rf); err != nil {
		fmt.Fprintln(os.Stderr, err)
		return 2
	}
	fmt.Println("replaying", rf.Property, "—", rf.Summary)
	var msg string
	switch rf.Property {
	case "C10":
		var r struct {
			Events []impl.Event
			Stream string `json:"stream"`
			N      int    `json:"events"`
			Long   *int   `json:"long"`
			Items  int    `json:"items"`
		}
		json.Unmarshal(rf.Case, &r)
		if r.Long != nil {
			msg = C10CheckTrace(c10LongTrace(*r.Long, r.Items))
			if len(msg) > 1000 {
				msg = msg[:1000] + " ..."
			}
			break
		}
		if r.Stream != "" {
			fmt.Println("re-run: xv c10-stream", r.Stream, r.N)
			return 1
		}
		msg = C10Replay(r.Events)
	default:
		f, ok := replayers[rf.Property]
		if !ok {
			fmt.Fprintln(os.Stderr, "no replayer for", rf.Property)
			return 2
		}
		msg = f(rf.Case)
	}
	if msg != "" {
		fmt.Printf("VIOLATION property=%s replay=%s\n%s\n", rf.Property, path, msg)
		return 1
	}
	fmt.Println("case passes on the current tree")
	return 0
}

var replayers = map[string]func(raw json.RawMessage) string{}
