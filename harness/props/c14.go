package props

import (
	"context"
	"encoding/json"
	"fmt"
	"os"
	"os/exec"
	"sort"
	"strings"
	"sync"
	"time"

	"github.com/ChrisTrenkamp/xsel"
	"github.com/ChrisTrenkamp/xsel/node"
	"github.com/ChrisTrenkamp/xsel/store"

	"xv/adoc"
	"xv/impl"
	"xv/run"
	"xv/sched"
	"xv/snap"
)

// ---- C14 (a): shared documents and compiled queries under concurrent use -------
//
// Stateless model checking of real xsel.Exec calls: the threads of a scenario
// share one cursor tree, the compiled expressions, the caller's binding maps
// and one caller-owned node-set with spare capacity. The tree is handed to the
// library through proxy cursors whose every method is a scheduling point, and
// the expressions call a user function that is one too, so the scheduler can
// switch threads between any two tree accesses of an evaluation. All schedules
// up to a preemption bound are enumerated depth-first.

// ycursor is a store.Cursor whose accessors are scheduling points.
type ycursor struct {
	c    store.Cursor
	tree *ytree
	ns   []store.Cursor
	at   []store.Cursor
	ch   []store.Cursor
}

type ytree struct {
	s    *sched.Sched
	wrap map[store.Cursor]*ycursor
	free bool // free-running (race pass): no scheduler
}

func (t *ytree) point(l string) {
	if !t.free && t.s != nil {
		t.s.Point(l)
	}
}

func newYTree(root store.Cursor) (*ytree, *ycursor) {
	t := &ytree{wrap: map[store.Cursor]*ycursor{}}
	var mk func(c store.Cursor) *ycursor
	mk = func(c store.Cursor) *ycursor {
		if y, ok := t.wrap[c]; ok {
			return y
		}
		y := &ycursor{c: c, tree: t}
		t.wrap[c] = y
		// like the real store, the lists have spare capacity
		y.ns = make([]store.Cursor, 0, len(c.Namespaces())+16)
		y.at = make([]store.Cursor, 0, len(c.Attributes())+16)
		y.ch = make([]store.Cursor, 0, len(c.Children())+16)
		for _, x := range c.Namespaces() {
			y.ns = append(y.ns, mk(x))
		}
		for _, x := range c.Attributes() {
			y.at = append(y.at, mk(x))
		}
		for _, x := range c.Children() {
			y.ch = append(y.ch, mk(x))
		}
		return y
	}
	return t, mk(root)
}

func (y *ycursor) Pos() int                   { y.tree.point("Pos"); return y.c.Pos() }
func (y *ycursor) Node() node.Node            { y.tree.point("Node"); return y.c.Node() }
func (y *ycursor) Namespaces() []store.Cursor { y.tree.point("Namespaces"); return y.ns }
func (y *ycursor) Attributes() []store.Cursor { y.tree.point("Attributes"); return y.at }
func (y *ycursor) Children() []store.Cursor   { y.tree.point("Children"); return y.ch }
func (y *ycursor) Parent() store.Cursor {
	y.tree.point("Parent")
	p := y.c.Parent()
	if p == nil {
		return nil
	}
	return y.tree.wrap[p]
}

// c14Scenario: which expression each call of each thread executes.
type c14Scenario struct {
	Name    string      `json:"name"`
	Threads [][]c14Call `json:"threads"`
}
type c14Call struct {
	Expr string `json:"expr"`
	Ctx  string `json:"ctx"`
	// Helpers > 0: the call passes its bindings through the option helpers
	// (WithNS, WithVariable, WithFunction) - its own set, with $t, the prefix t
	// and the function tf() bound to values that depend on the number - instead
	// of handing over the caller-owned maps.
	Helpers int `json:"helpers,omitempty"`
}

var c14Scenarios = []c14Scenario{
	{"same union of the shared variable twice", [][]c14Call{{{"$v | //c", "/", 0}}, {{"$v | //c", "/", 0}}}},
	{"union vs. filter of the shared variable", [][]c14Call{{{"$v | $w", "/", 0}}, {{"$v[1]", "/", 0}}}},
	{"reverse axis vs. union", [][]c14Call{{{"//c/ancestor::*", "/", 0}}, {{"$w | $v", "/0/0", 0}}}},
	{"predicates with a user function", [][]c14Call{{{"//*[y()][1]", "/", 0}}, {{"//b[y()]/c", "/", 0}}}},
	{"two calls per thread", [][]c14Call{{{"count($v)", "/", 0}, {"$v/..", "/", 0}}, {{"$v | //b", "/", 0}, {"(//b)[last()]", "/", 0}}}},
	{"three threads, same compiled expression", [][]c14Call{{{"$v | //c", "/", 0}}, {{"$v | //c", "/0/0", 0}}, {{"$v | //c", "/", 0}}}},
	{"string and number results", [][]c14Call{{{"string($w)", "/", 0}}, {{"sum(//c) + count($v | $w)", "/", 0}}}},
	{"sorting the same descending variable", [][]c14Call{{{"$v[last()]", "/", 0}}, {{"($v)[1]", "/", 0}}, {{"$v | $v", "/", 0}}}},
	{"attribute and namespace lists of several context nodes", [][]c14Call{{{"(/* | //b)/@*", "/", 0}}, {{"//*/@*", "/0/0", 0}}, {{"//*/namespace::*", "/", 0}}}},
	{"child lists of several context nodes", [][]c14Call{{{"//*/*", "/", 0}}, {{"(//b | /*)/node()", "/", 0}}}},
	{"node-set comparisons of shared operands", [][]c14Call{{{"//b = //c", "/", 0}}, {{"//c = //b/c", "/", 0}}, {{"$v = $w", "/", 0}}}},
	{"comparisons and string functions", [][]c14Call{{{"//*[. = //c]", "/", 0}}, {{"concat(//b, //c) = string($v)", "/0/0", 0}}}},
	{"sibling axes over the same child list", [][]c14Call{{{"//d/preceding-sibling::node()", "/", 0}}, {{"/*/*[1]/following-sibling::node()", "/", 0}}, {{"//d/preceding-sibling::*[1]", "/", 0}}}},
	{"the same expression under two sets of option-helper bindings", [][]c14Call{{{"count(//c) + $t + tf()", "/", 1}}, {{"count(//c) + $t + tf()", "/", 2}}}},
	{"option-helper bindings beside caller-owned maps", [][]c14Call{{{"concat(name(//b[1]), $t, count(//t:c))", "/", 1}}, {{"$v[1]", "/", 0}}, {{"concat(count(//b), '|', $t)", "/0/0", 3}}}},
}

type c14World struct {
	real   bool // hand the library the real store cursors instead of proxies (race pass)
	b      *impl.Binding
	tree   *ytree
	yroot  *ycursor
	exprs  map[string]*xsel.Grammar
	slotV  xsel.NodeSet
	slotW  xsel.NodeSet
	nsMap  map[string]string
	varMap map[xsel.XmlName]xsel.Result
	fnMap  map[xsel.XmlName]xsel.Function
}

func newC14World(sc c14Scenario) *c14World {
	b, err := impl.Bind(c13Doc(0))
	if err != nil {
		panic(err)
	}
	w := &c14World{b: b, exprs: map[string]*xsel.Grammar{}, nsMap: map[string]string{"p": adoc.URI_U}}
	w.tree, w.yroot = newYTree(b.Root)
	for _, th := range sc.Threads {
		for _, c := range th {
			if _, ok := w.exprs[c.Expr]; !ok {
				g := xsel.MustBuildExpr(c.Expr)
				w.exprs[c.Expr] = &g
			}
		}
	}
	w.reset()
	w.fnMap = map[xsel.XmlName]xsel.Function{{Local: "y"}: func(c xsel.Context, args ...xsel.Result) (xsel.Result, error) {
		w.tree.point("y()")
		return xsel.Bool(true), nil
	}}
	return w
}

// reset gives the caller fresh node-set variables (the tree, the compiled
// expressions and the maps are reused between executions: their fingerprints
// are verified not to change).
func (w *c14World) reset() {
	b := w.b
	var bs, cs []store.Cursor
	pick := func(c store.Cursor) store.Cursor {
		if w.real {
			return c
		}
		return w.tree.wrap[c]
	}
	for _, n := range b.Doc.Nodes {
		if n.Kind == adoc.Elem && n.Local == "b" {
			bs = append(bs, pick(b.ToCur[n]))
		}
		if n.Kind == adoc.Elem && n.Local == "c" {
			cs = append(cs, pick(b.ToCur[n]))
		}
	}
	w.slotV = make(xsel.NodeSet, 0, len(bs)+4)
	for i := len(bs) - 1; i >= 0; i-- {
		w.slotV = append(w.slotV, bs[i])
	}
	w.slotW = append(make(xsel.NodeSet, 0, len(cs)+2), cs...)
	w.varMap = map[xsel.XmlName]xsel.Result{{Local: "v"}: w.slotV, {Local: "w"}: w.slotW}
}

// settings shares the caller-owned maps between all calls, as the CLI does.
func (w *c14World) settings() []xsel.ContextApply {
	return []xsel.ContextApply{func(c *xsel.ContextSettings) {
		c.NamespaceDecls = w.nsMap
		c.Variables = w.varMap
		c.FunctionLibrary = w.fnMap
	}}
}

func (w *c14World) ctx(path string) store.Cursor {
	if w.real {
		return w.b.ToCur[w.b.Doc.Resolve(path)]
	}
	return w.tree.wrap[w.b.ToCur[w.b.Doc.Resolve(path)]]
}

func (w *c14World) outcome(r xsel.Result, err error) string {
	if err != nil {
		return "error"
	}
	switch v := r.(type) {
	case xsel.NodeSet:
		ids := make([]int, len(v))
		for i, c := range v {
			if y, ok := c.(*ycursor); ok {
				ids[i] = w.b.ToNode[y.c].ID
			} else if n, ok := w.b.ToNode[c]; ok {
				ids[i] = n.ID
			} else {
				ids[i] = -1
			}
		}
		return fmt.Sprint("node-set", ids)
	case nil:
		return "nil"
	}
	return fmt.Sprintf("%T:%s", r, r.String())
}

func (w *c14World) exec(c c14Call) (out string) {
	defer func() {
		if r := recover(); r != nil {
			out = fmt.Sprint("PANIC: ", r)
		}
	}()
	settings := w.settings()
	if c.Helpers > 0 {
		k := float64(c.Helpers)
		uri := adoc.URI_U
		if c.Helpers%2 == 0 {
			uri = adoc.URI_V
		}
		settings = []xsel.ContextApply{xsel.WithNS("p", adoc.URI_U), xsel.WithNS("t", uri), xsel.WithVariable("v", w.slotV), xsel.WithVariable("w", w.slotW), xsel.WithVariable("t", xsel.Number(k)),
			xsel.WithFunction("y", w.fnMap[xsel.XmlName{Local: "y"}]),
			xsel.WithFunction("tf", func(xsel.Context, ...xsel.Result) (xsel.Result, error) { return xsel.Number(k * 100), nil })}
	}
	slot := run.Enter("Exec (C14 scenario)", c.Expr)
	defer run.Leave(slot)
	r, err := xsel.Exec(w.ctx(c.Ctx), w.exprs[c.Expr], settings...)
	return w.outcome(r, err)
}

// fingerprint of everything shared (evaluated while no thread runs).
func (w *c14World) fingerprint(full bool) string {
	v := w.slotV[:cap(w.slotV)]
	x := w.slotW[:cap(w.slotW)]
	id := func(ns xsel.NodeSet) []int {
		out := make([]int, len(ns))
		for i, c := range ns {
			if c == nil {
				out[i] = -9
			} else if y, ok := c.(*ycursor); ok {
				out[i] = w.b.ToNode[y.c].ID
			} else {
				out[i] = -1
			}
		}
		return out
	}
	s := fmt.Sprintf("v=%v w=%v maps=%d/%d/%d", id(v), id(x), len(w.nsMap), len(w.varMap), len(w.fnMap))
	if full {
		// the binding maps entry by entry (node-set values by slice header)
		var ms []string
		for k, u := range w.nsMap {
			ms = append(ms, "ns:"+k+"="+u)
		}
		for k, r := range w.varMap {
			if ns, ok := r.(xsel.NodeSet); ok {
				// identity relative to the caller's slots (reset() re-allocates them)
				which := "other"
				if cap(ns) > 0 && cap(w.slotV) > 0 && &ns[:cap(ns)][0] == &w.slotV[:cap(w.slotV)][0] {
					which = "slotV"
				} else if cap(ns) > 0 && cap(w.slotW) > 0 && &ns[:cap(ns)][0] == &w.slotW[:cap(w.slotW)][0] {
					which = "slotW"
				}
				ms = append(ms, fmt.Sprintf("var:%v=%s/%d/%d", k, which, len(ns), cap(ns)))
			} else {
				ms = append(ms, fmt.Sprintf("var:%v=%v", k, r))
			}
		}
		for k, f := range w.fnMap {
			ms = append(ms, fmt.Sprintf("fn:%v=%v", k, f != nil))
		}
		sort.Strings(ms)
		s += " " + strings.Join(ms, ",")
		// the proxy tree's own lists, spare capacity included
		for _, n := range w.b.Doc.Nodes {
			y := w.tree.wrap[w.b.ToCur[n]]
			for _, l := range [][]store.Cursor{y.ns, y.at, y.ch} {
				s += fmt.Sprint(id(xsel.NodeSet(l[:cap(l)])))
			}
		}
		h := snap.New()
		root := w.b.Root
		s += fmt.Sprintf(" tree=%x", h.Hash(&root))
		keys := make([]string, 0, len(w.exprs))
		for k := range w.exprs {
			keys = append(keys, k)
		}
		sort.Strings(keys)
		for _, k := range keys {
			s += fmt.Sprintf(" %x", snap.New().Hash(w.exprs[k]))
		}
	}
	return s
}

type c14Replay struct {
	Scenario c14Scenario `json:"scenario"`
	Schedule []int       `json:"schedule"`
	Detail   string      `json:"detail"`
}

// c14RunOnce executes the scenario under one schedule prefix.
func c14RunOnce(w *c14World, sc c14Scenario, serial [][]string, prefix []int, full bool) ([]sched.Point, string, string) {
	w.reset()
	s := sched.New(prefix)
	w.tree.s = s
	defer func() { w.tree.s = nil }()
	before := ""
	if full {
		before = w.fingerprint(true)
	}
	cheap := w.fingerprint(false)
	origV := append(xsel.NodeSet{}, w.slotV[:cap(w.slotV)]...)
	origW := append(xsel.NodeSet{}, w.slotW[:cap(w.slotW)]...)
	same := func() bool {
		v, x := w.slotV[:cap(w.slotV)], w.slotW[:cap(w.slotW)]
		for i := range v {
			if v[i] != origV[i] {
				return false
			}
		}
		for i := range x {
			if x[i] != origW[i] {
				return false
			}
		}
		return len(w.varMap) == 2 && len(w.nsMap) == 1 && len(w.fnMap) == 1
	}
	verdict := ""
	s.OnPoint = func(_ *sched.Sched, label string) {
		if verdict == "" && !same() {
			verdict = fmt.Sprintf("shared caller-owned data changed while calls were in flight (at scheduling point %d, %s): %s -> %s", len(s.Points), label, cheap, w.fingerprint(false))
		}
	}
	results := make([][]string, len(sc.Threads))
	for ti, calls := range sc.Threads {
		ti, calls := ti, calls
		results[ti] = make([]string, len(calls))
		s.Go(fmt.Sprint("T", ti), func() {
			for ci, c := range calls {
				s.Point("call")
				results[ti][ci] = w.exec(c)
			}
		})
	}
	if msg := s.Run(); msg != "" {
		return s.Points, msg, ""
	}
	if s.Diverged != "" {
		return s.Points, "HARNESS: schedule prefix diverged: " + s.Diverged, ""
	}
	if s.Deadlock {
		return s.Points, "deadlock", ""
	}
	if s.Truncated {
		// executions of these scenarios need a few dozen scheduling points; one that
		// is still going after 100000 has a call that does not return under this schedule
		return s.Points[:min(len(s.Points), 600)], fmt.Sprintf("the calls had not returned after %d scheduling points under this schedule (each returns within a few dozen when run alone): a call does not terminate when interleaved with the others", s.MaxPoints), ""
	}
	if verdict != "" {
		return s.Points, verdict, ""
	}
	for ti := range results {
		for ci := range results[ti] {
			if results[ti][ci] != serial[ti][ci] {
				return s.Points, fmt.Sprintf("thread %d call %d (%s) returned %s under this schedule but %s when run alone", ti, ci, sc.Threads[ti][ci].Expr, results[ti][ci], serial[ti][ci]), ""
			}
		}
	}
	if full {
		if after := w.fingerprint(true); after != before {
			return s.Points, "shared objects changed: " + before + " -> " + after, ""
		}
	} else if now := w.fingerprint(false); now != cheap {
		return s.Points, "shared caller-owned data changed: " + cheap + " -> " + now, ""
	}
	return s.Points, "", fmt.Sprint(results)
}

func c14Serial(sc c14Scenario) [][]string {
	out := make([][]string, len(sc.Threads))
	for ti, calls := range sc.Threads {
		for _, c := range calls {
			w := newC14World(sc) // every call alone in a pristine world
			out[ti] = append(out[ti], w.exec(c))
		}
	}
	return out
}

// c14Library explores every library scenario in a process of its own: state
// shared between calls inside the library (a package-level buffer, a cache)
// would otherwise be disturbed by the threads of the other scenarios, which no
// recorded schedule accounts for - verdicts would not reproduce.
func c14Library(c *run.Check) {
	var mu sync.Mutex
	run.ParallelW(len(c14Scenarios), func(_, i int) {
		out := ""
		var ex run.Exported
		ok := false
		for attempt := 0; attempt < 3 && !ok; attempt++ {
			o, _ := exec.Command(os.Args[0], "c14-lib-one", fmt.Sprint(i), c.Tier).CombinedOutput()
			out = string(o)
			if k := strings.LastIndex(out, "EXPORT "); k >= 0 && json.Unmarshal([]byte(strings.TrimSpace(out[k+7:])), &ex) == nil {
				ok = true
				if k > 0 {
					fmt.Print(out[:k]) // notes the scenario process printed
				}
				break
			}
			if strings.Contains(out, "goroutine ") || strings.Contains(out, "HANG ") || strings.Contains(out, "MEMORY ") {
				break // the child ran and died
			}
			time.Sleep(time.Duration(attempt+1) * 300 * time.Millisecond)
		}
		mu.Lock()
		defer mu.Unlock()
		if ok {
			c.Merge(ex)
			return
		}
		if len(out) > 1500 {
			out = out[:1500]
		}
		sc := c14Scenarios[i]
		if (strings.Contains(out, "goroutine ") && strings.Contains(out, "ChrisTrenkamp/xsel")) || strings.Contains(out, "HANG ") || strings.Contains(out, "MEMORY ") {
			c.Violation(c14Replay{Scenario: sc, Detail: "scenario process died"}, fmt.Sprintf("scenario %q: the process exploring it died inside the library or was stopped by the watchdog: %s", sc.Name, out))
			return
		}
		c.Set(fmt.Sprintf("scenario_%d_exploration_problem", i), "scenario process gave no result: "+out)
		c.Exhaustive = false
	})
}

// c14LibraryRun is the body of one scenario process (idx: scenario numbers).
func c14LibraryRun(c *run.Check, idx []int) {
	bound := 2
	if !c.Quick() {
		bound = 3
	}
	var mu sync.Mutex
	run.ParallelW(len(idx), func(w, k int) {
		i := idx[k]
		sc := c14Scenarios[i]
		serial := c14Serial(sc)
		// replay determinism: the same schedule twice gives the same trace
		world := newC14World(sc)
		pristine := world.fingerprint(true)
		p1, v1, _ := c14RunOnce(world, sc, serial, nil, true)
		p2, v2, _ := c14RunOnce(world, sc, serial, nil, true)
		if v1 != "" || v2 != "" {
			// already the default schedule fails (the second run starts from the
			// objects the first one used: state leaking between calls shows here)
			v := v1
			if v == "" {
				v = "after one execution the shared objects are no longer what they were: " + v2
			}
			c.Violation(c14Replay{Scenario: sc, Schedule: []int{}, Detail: v}, fmt.Sprintf("scenario %q, default schedule: %s", sc.Name, v))
			return
		}
		if len(p1) != len(p2) {
			// not a property violation: the scenario cannot be replayed, so its
			// schedules cannot be enumerated (results were still compared above)
			mu.Lock()
			c.Set(fmt.Sprintf("scenario_%d_not_replayable", i), fmt.Sprintf("the same schedule gave %d and %d scheduling points: evaluation is not a deterministic function of its inputs; schedule enumeration skipped", len(p1), len(p2)))
			mu.Unlock()
			c.Exhaustive = false
			return
		}
		// read-only audit: full fingerprint of everything shared at EVERY scheduling
		// point of two schedules (see c14Audit); a write is a violation of its own
		asteps, averdict, gchanged := c14Audit(sc, serial)
		if gchanged != "" {
			mu.Lock()
			c.Set("library_globals_changed_during_audit", gchanged)
			mu.Unlock()
		}
		if averdict != "" {
			c.Violation(c14Replay{Scenario: sc, Schedule: []int{}, Detail: averdict}, fmt.Sprintf("scenario %q, read-only audit: %s", sc.Name, averdict))
			return
		}
		mu.Lock()
		c.Add("audited_steps_all_read_only", int64(asteps))
		mu.Unlock()
		outcomes := map[string]int{}
		maxPoints := 0
		nexec := 0
		ex := &sched.Explorer{Bound: bound, Stop: c.TimeUp}
		if c.Quick() {
			ex.MaxExec = 25000
		}
		ex.Exec = func(prefix []int) ([]sched.Point, string) {
			// deep fingerprints of tree/expressions/maps on every 256th execution and
			// at the end of the scenario; the caller-owned slices on every one
			pts, verdict, outcome := c14RunOnce(world, sc, serial, prefix, nexec%256 == 0)
			nexec++
			if len(pts) > maxPoints {
				maxPoints = len(pts)
			}
			outcomes[outcome]++
			return pts, verdict
		}
		// iterative context bounding: 0, 1, ..., bound
		for b := 0; b <= bound && ex.Violation == "" && !ex.Capped; b++ {
			ex.Bound = b
			ex.Executions = 0
			ex.Explore()
			mu.Lock()
			c.Add(fmt.Sprintf("scenario_%d_schedules_bound_%d", i, b), int64(ex.Executions))
			mu.Unlock()
			c.Transitions.Add(int64(ex.Executions))
			c.Evaluations.Add(int64(ex.Executions))
			c.Traces.Add(int64(ex.Executions))
		}
		if strings.HasPrefix(ex.Violation, "HARNESS:") {
			mu.Lock()
			c.Set(fmt.Sprintf("scenario_%d_exploration_problem", i), ex.Violation)
			mu.Unlock()
			c.Exhaustive = false
			return
		}
		if ex.Violation != "" {
			// believe a failure only if it reproduces from its recorded schedule
			_, again, _ := c14RunOnce(newC14World(sc), sc, serial, ex.Schedule, true)
			if again == "" {
				// not believed, not reported as a violation; the run is marked non-exhaustive
				mu.Lock()
				c.Set(fmt.Sprintf("scenario_%d_unreproducible_verdict", i), ex.Violation)
				mu.Unlock()
				c.Exhaustive = false
				fmt.Println("note: a verdict did not reproduce from its recorded schedule and is not reported:", ex.Violation)
				return
			}
			c.Violation(c14Replay{Scenario: sc, Schedule: ex.Schedule, Detail: ex.Violation}, fmt.Sprintf("scenario %q, schedule %v: %s", sc.Name, compactSchedule(ex.Schedule), ex.Violation))
			return
		}
		if ex.Capped {
			mu.Lock()
			c.Add("library_scenarios_with_capped_bounded_search", 1)
			mu.Unlock()
		}
		world.reset()
		if now := world.fingerprint(true); now != pristine {
			c.Violation(c14Replay{Scenario: sc, Detail: "shared objects changed"}, fmt.Sprintf("scenario %q: tree / compiled expressions / binding maps changed during the exploration: %s -> %s", sc.Name, pristine, now))
			return
		}
		c.States.Add(int64(maxPoints))
		c.Distinct(sc.Name)
		c.Sample(map[string]interface{}{"scenario": sc, "scheduling_points_per_execution": maxPoints})
	})
}

func compactSchedule(s []int) string {
	var parts []string
	for i, c := range s {
		if c != 0 {
			parts = append(parts, fmt.Sprintf("@%d->%d", i, c))
		}
	}
	return "[" + strings.Join(parts, " ") + "]"
}

// C14Race is the auxiliary free-running pass (run in a -race build): the same
// scenario bodies on real threads.
func C14Race(args []string) int {
	for round := 0; round < 30; round++ {
		for _, sc := range c14Scenarios {
			w := newC14World(sc)
			w.tree.free = true
			if round%2 == 1 {
				// every other round on the real in-memory cursors
				w.real = true
				w.reset()
			}
			serial := c14Serial(sc)
			results := make([][]string, len(sc.Threads))
			var wg sync.WaitGroup
			for ti, calls := range sc.Threads {
				ti, calls := ti, calls
				results[ti] = make([]string, len(calls))
				wg.Add(1)
				go func() {
					defer wg.Done()
					for ci, c := range calls {
						results[ti][ci] = w.exec(c)
					}
				}()
			}
			wg.Wait()
			for ti := range results {
				for ci := range results[ti] {
					if results[ti][ci] != serial[ti][ci] {
						fmt.Printf("DATA RACE (observed): scenario %q thread %d call %d returned %s, serially %s\n", sc.Name, ti, ci, results[ti][ci], serial[ti][ci])
						return 1
					}
				}
			}
		}
	}
	// broad pass: many kinds of expression (comparisons of every operand type,
	// string/number/node functions, predicates, unions, variables) evaluated by 8
	// goroutines at once on one shared tree with shared compiled expressions and
	// shared binding maps; every result is compared with the serial one
	for round := 0; round < 6; round++ {
		sc := c14Scenario{Name: "broad", Threads: [][]c14Call{{}}}
		for _, e := range c14BroadMenu {
			sc.Threads[0] = append(sc.Threads[0], c14Call{e, []string{"/", "/0/0", "/0"}[len(sc.Threads[0])%3], 0})
		}
		w := newC14World(sc)
		w.tree.free = true
		if round%2 == 1 {
			w.real = true
			w.reset()
		}
		calls := sc.Threads[0]
		serial := make([]string, len(calls))
		for i, c := range calls {
			serial[i] = w.exec(c)
		}
		var wg sync.WaitGroup
		bad := make(chan string, 64)
		for g := 0; g < 8; g++ {
			g := g
			wg.Add(1)
			go func() {
				defer wg.Done()
				for k := range calls {
					i := (k*7 + g*5) % len(calls)
					if got := w.exec(calls[i]); got != serial[i] {
						select {
						case bad <- fmt.Sprintf("%q from %s returned %s, serially %s", calls[i].Expr, calls[i].Ctx, got, serial[i]):
						default:
						}
					}
				}
			}()
		}
		wg.Wait()
		select {
		case msg := <-bad:
			fmt.Println("DATA RACE (observed): broad pass:", msg)
			return 1
		default:
		}
	}
	if msg := c14ParseRace(); msg != "" {
		fmt.Println("DATA RACE (observed):", msg)
		return 1
	}
	fmt.Println("race pass done")
	return 0
}

var c14BroadMenu = []string{
	"//b = //c", "//b != //c", "//b < //c", "//c >= //b", "$v = $w", "$v != $w", "$w = '2'", "//c = 2", "//b = true()", "//*[. = //c]", "//*[@* = //c]", "string(//b) = //c", "count(//b[. = //c])",
	"//b/@i < //c", "//@* = //c", "//@* != //@*", "//b/ancestor::* = //c/ancestor::*", "boolean(//b) and //c = //b", "//c = //c or //b = //d", "not(//d = //b)",
	"sum(//c) > count(//b)", "sum(//c | //b/c)", "-//c + sum(//b/c)", "count(//node())", "floor(sum(//c) div 3)", "round(//c * 1.5)", "//c mod 2", "number(//b/@i) + 1",
	"concat(//b, '|', //c)", "//b[contains(., '1')]", "translate(string(//c), '23', 'xy')", "normalize-space(//b)", "substring(//b, 1, 2)", "substring-before(//b, '2')", "string-length(//b)", "starts-with(//c, '2')",
	"name(//*[last()])", "local-name(//@*)", "namespace-uri(//*)", "//*[lang('en')]", "count(//namespace::*)", "name(//namespace::*[2])",
	"//b | //c | //d", "$v | $w", "$v[last()]", "($w)[1]", "$v/..", "$w/ancestor-or-self::*", "//b[2]/preceding::*", "//c/following::node()", "//*[position() = last()]", "//*[count(*) > 1][1]", "/*/*[2]/*", "//b//c", "//text()", "//comment()",
	"//b[y()]", "//*[y() and . = //c]", "string(y())", "count(//b/@*) = count($v/@*)",
}

func C14(c *run.Check) {
	if os.Getenv("XV_C14_ONLY") == "reads" { // diagnostics: the concurrent-read scenarios alone
		c14Parse(c)
		c.Exhaustive = false
		return
	}
	c14Library(c)
	if c.Violations() == 0 {
		c14Parse(c)
	}
	if c.Violations() == 0 {
		// static half of the read-only argument: package-level variables of the library
		repo := "/repo"
		if r := os.Getenv("XV_REPO"); r != "" {
			repo = r
		}
		nvars, writes, syncVars, err := c14GlobalScan(repo)
		c.Set("library_package_level_vars", nvars)
		if LibGlobals != nil {
			c.Set("library_package_level_vars_in_fingerprint", len(LibGlobals()))
		} else {
			c.Set("library_package_level_vars_in_fingerprint", "none (harness built without the globals overlay): package-level state is covered by the static scan only")
		}
		switch {
		case err != nil:
			c.Set("library_reduction", "not claimed: the static scan of package-level variables failed: "+err.Error())
			c.Exhaustive = false
		case len(syncVars) > 0:
			c.Set("library_package_level_sync_objects", syncVars)
			c.Set("library_reduction", "not claimed: the library keeps synchronisation objects (sync / sync/atomic types) in package-level variables (listed) - shared mutable state that fingerprints cannot see; only the schedules enumerated by the bounded search and the free-running race pass are covered")
			c.Exhaustive = false
		case len(writes) > 0:
			c.Set("library_package_level_writes_outside_init", writes)
			c.Set("library_reduction", "not claimed: library code outside init() writes package-level variables (listed); only the schedules enumerated by the bounded search are covered")
			c.Exhaustive = false
		case c.Get("library_globals_changed_during_audit") != nil:
			c.Set("library_reduction", "not claimed: package-level variables of the library changed while the audited calls ran (library_globals_changed_during_audit); that is not a violation by itself (a synchronised cache is legitimate), but the steps are then not all reads; only the schedules enumerated by the bounded search are covered")
			c.Exhaustive = false
		default:
			c.Set("library_package_level_writes_outside_init", []string{})
			c.Set("library_reduction", "every step (code between two scheduling points) of two audited executions per scenario left every shared object bit-identical (proxy lists incl. spare capacity, real tree, compiled expressions, binding maps, caller slices, package-level variables of the library packages), and no library function outside init() assigns to a package-level variable: all steps are reads of shared state, hence pairwise independent, each thread behaves identically in every interleaving, and ALL interleavings of each scenario (any number of preemptions) are trace-equivalent to the audited ones at scheduling-point granularity; the bounded depth-first search is kept as a second line of defence")
		}
	}
	if c.Violations() == 0 {
		c14CLI(c)
	}
	// auxiliary: free-running -race pass of the same scenario bodies
	if c.Violations() == 0 {
		if rb := os.Getenv("XV_RACE_BIN"); rb != "" {
			// the pass takes well under a minute; twenty minutes without an end means the
			// free-running calls do not return (a loop on state another goroutine changed)
			rctx, cancel := context.WithTimeout(context.Background(), 20*time.Minute)
			out, err := exec.CommandContext(rctx, rb, "c14-race").CombinedOutput()
			hung := rctx.Err() != nil
			cancel()
			c.Evaluations.Add(int64(30 * len(c14Scenarios)))
			if hung {
				c.Violation(map[string]string{"kind": "race-pass-hang"}, "auxiliary free-running pass: the concurrent calls had not returned after 20 minutes (the same calls return at once when run one after the other)")
			} else if err != nil || strings.Contains(string(out), "DATA RACE") {
				msg := string(out)
				if i := strings.Index(msg, "WARNING: DATA RACE"); i >= 0 {
					msg = msg[i:]
				}
				if len(msg) > 1500 {
					msg = msg[:1500]
				}
				c.Violation(map[string]string{"kind": "race-detector", "output": msg}, "auxiliary free-running -race pass reported a data race:\n"+msg)
			}
			if c.Violations() == 0 {
				c.Set("race_pass", "30 rounds x all scenarios, 6 rounds of the broad menu and 10 rounds of concurrent document reads (6-9 documents at once) free-running under the Go race detector: clean")
			}
		} else {
			c.Set("race_pass", "skipped (no -race binary)")
		}
	}
	c.Rule = "library: 15 scenarios of 2-3 threads x 1-2 real xsel.Exec calls sharing one cursor tree (through proxy cursors whose every accessor is a scheduling point), the compiled expressions, caller-owned binding maps and a caller-owned node-set variable with spare capacity; ALL schedules with at most 2 (thorough: 3) preemptions enumerated depth-first; in every execution each call must return its serial result, the shared slices must be unchanged at every scheduling point and deep fingerprints of tree, expressions and maps unchanged at the end; plus a read-only audit (full fingerprint of everything shared at EVERY scheduling point of two schedules per scenario + static scan for writes to package-level variables) that extends the verdict to all interleavings by independence of read-only steps (library_reduction). Worker bodies: 7 scenarios of 2-3 documents (XML with attributes and namespace declarations, HTML, JSON) read at the same time through the library's parsers with a scheduling point at every Pull and every 12-byte Read, ALL schedules with at most 3 (thorough: 4) preemptions, every tree built compared node by node with the tree built when the document is read alone (read_* keys). CLI: the real main() under the same scheduler, see cli_* keys. Auxiliary: the same bodies free-running under the race detector"
	c.Assume("scheduling points are tree accesses, user-function calls and (CLI) goroutine/channel/WaitGroup/print operations; interleavings below that granularity are covered only by the auxiliary race-detector pass")
}

func init() {
	Registry["C14"] = Prop{"model_checking", C14}
	Sub["c14-race"] = C14Race
	// `xv c14-lib-one <scenario> <tier>`: one library scenario, alone in its process
	Sub["c14-lib-one"] = func(args []string) int {
		var i int
		fmt.Sscan(args[0], &i)
		c := run.New("C14", args[1], "model_checking")
		c14LibraryRun(c, []int{i})
		j, _ := json.Marshal(c.Export())
		fmt.Println("EXPORT " + string(j))
		return 0
	}
	replayers["C14"] = func(raw json.RawMessage) string {
		var probe struct {
			Kind string `json:"kind"`
		}
		json.Unmarshal(raw, &probe)
		if probe.Kind == "parse" {
			return c14ParseReplayRun(raw)
		}
		if probe.Kind == "cli-race-pass" {
			return "re-run ./check C14 quick: the free-running race-detector pass of the tool is not a stored schedule (the file names the command line)"
		}
		if probe.Kind == "cli" {
			var cr c14cliReplay
			json.Unmarshal(raw, &cr)
			return c14cliReplayRun(cr)
		}
		var r c14Replay
		json.Unmarshal(raw, &r)
		if len(r.Scenario.Threads) == 0 {
			return "re-run ./check C14 quick (" + r.Detail + ")"
		}
		_, verdict, _ := c14RunOnce(newC14World(r.Scenario), r.Scenario, c14Serial(r.Scenario), r.Schedule, true)
		return verdict
	}
}

// ---- read-only audit (partial-order reduction argument) -------------------------
//
// c14Audit runs the scenario under two schedules (default: each thread to
// completion; rotate: switch to the next thread at every scheduling point) and
// takes the FULL fingerprint of everything the threads share - proxy lists with
// spare capacity, the real tree, every compiled expression, the binding maps
// and the caller's slices - at EVERY scheduling point. If no step changes it,
// every step only reads shared state: all steps of different threads are
// independent, each thread's behaviour is the same in every interleaving (by
// induction on the first step that could differ, which would need a write),
// and every schedule is trace-equivalent to the explored ones.
func c14Audit(sc c14Scenario, serial [][]string) (steps int, verdict string, globalsChanged string) {
	g0 := libGlobalsPrint(true)
	defer func() {
		if g0 != nil && globalsChanged == "" {
			globalsChanged = libGlobalsDiff(g0, libGlobalsPrint(true))
		}
	}()
	for mode := 0; mode < 2; mode++ {
		w := newC14World(sc)
		s := sched.New(nil)
		if mode == 1 {
			s.Policy = func(en []int, running int) int {
				// the enabled thread with the smallest id greater than the running one, else the smallest
				best := -1
				for i, id := range en {
					if id > running && (best < 0 || id < en[best]) {
						best = i
					}
				}
				if best >= 0 {
					return best
				}
				best = 0
				for i, id := range en {
					if id < en[best] {
						best = i
					}
				}
				return best
			}
		}
		w.tree.s = s
		pristine := w.fingerprint(true)
		s.OnPoint = func(_ *sched.Sched, label string) {
			steps++
			if g0 != nil && globalsChanged == "" {
				// not a violation by itself (a synchronised cache or counter is legitimate),
				// but then the steps are not all reads and the reduction is not claimed
				globalsChanged = libGlobalsDiff(g0, libGlobalsPrint(false))
			}
			if verdict == "" {
				if now := w.fingerprint(true); now != pristine {
					verdict = fmt.Sprintf("a step wrote to shared state (audit schedule %d, before scheduling point %d, %s): %s -> %s", mode, len(s.Points), label, pristine, now)
				}
			}
		}
		results := make([][]string, len(sc.Threads))
		for ti, calls := range sc.Threads {
			ti, calls := ti, calls
			results[ti] = make([]string, len(calls))
			s.Go(fmt.Sprint("T", ti), func() {
				for ci, c := range calls {
					s.Point("call")
					results[ti][ci] = w.exec(c)
				}
			})
		}
		if msg := s.Run(); msg != "" {
			return steps, msg, globalsChanged
		}
		w.tree.s = nil
		if verdict != "" {
			return steps, verdict, globalsChanged
		}
		if now := w.fingerprint(true); now != pristine {
			return steps, "the last step wrote to shared state: " + pristine + " -> " + now, globalsChanged
		}
		for ti := range results {
			for ci := range results[ti] {
				if results[ti][ci] != serial[ti][ci] {
					return steps, fmt.Sprintf("thread %d call %d (%s) returned %s under audit schedule %d but %s when run alone", ti, ci, sc.Threads[ti][ci].Expr, results[ti][ci], mode, serial[ti][ci]), globalsChanged
				}
			}
		}
	}
	return steps, "", globalsChanged
}
