package props

import (
	"encoding/json"
	"fmt"

	"xv/adoc"
	"xv/refxp"
	"xv/run"
)

// ---- C03: node-sets are duplicate-free, ordered, closed under union laws ----

// c03Order is the oracle on the implementation's own answer: identity-unique,
// only nodes of the queried tree, strictly monotone in document order,
// ascending when no reverse axis is used and for every union.
func c03Order(d *adoc.Doc, ctx *adoc.Node, e refExpr, got, want Outcome, _ EnvSpec) string {
	if got.Type != "node-set" {
		return ""
	}
	if got.Foreign > 0 {
		return fmt.Sprintf("%d returned cursors do not belong to the queried tree", got.Foreign)
	}
	seen := map[int]bool{}
	for _, id := range got.Nodes {
		if seen[id] {
			return fmt.Sprintf("node %s returned twice", d.Nodes[id].Describe())
		}
		seen[id] = true
	}
	asc, desc := true, true
	for i := 1; i < len(got.Nodes); i++ {
		if got.Nodes[i] < got.Nodes[i-1] {
			asc = false
		}
		if got.Nodes[i] > got.Nodes[i-1] {
			desc = false
		}
	}
	if !asc && !desc {
		return fmt.Sprintf("result is neither ascending nor descending in document order: %v", got.Nodes)
	}
	mustAsc := !refxp.UsesReverseAxis(e.AST)
	if b, ok := e.AST.(*refxp.Bin); ok && b.Op == "|" {
		mustAsc = true
	}
	if mustAsc && !asc {
		return fmt.Sprintf("result must be in ascending document order (no reverse axis / union) but is %v", got.Nodes)
	}
	return ""
}

func c03Paths(maxSteps int) []string {
	var steps []string
	for _, ax := range refxp.Axes {
		steps = append(steps, ax+"::node()", ax+"::*")
	}
	out := append([]string{}, steps...)
	prev := steps
	for k := 2; k <= maxSteps; k++ {
		var next []string
		for _, p := range prev {
			for _, s := range steps {
				next = append(next, p+"/"+s)
			}
		}
		out = append(out, next...)
		prev = next
	}
	return out
}

var c03Universe = []string{
	"//a", "//*", "//a/..", "//*/ancestor::*", "//*/@*", "//*/namespace::*", "//*/preceding::node()", "//text()", "/", "//a/following::*",
	"//b/preceding-sibling::node()", "//*/ancestor-or-self::*/@*", "//*/preceding::*/namespace::*", "//node()", "//b", "/*", "//*/*", "//*/..", "//a/descendant::node()", "//@x",
	"//*/ancestor::node()", "//a/ancestor-or-self::node()", "//*/following-sibling::*", "//*/preceding-sibling::*/@*", "//comment()", "//b/..//a", "/*/*/..", "//a/@*/..", "//*/namespace::*/..", "//processing-instruction()",
}

func c03Exprs(quick bool) (fromAll []string, fromRoot []string) {
	if quick {
		fromAll = c03Paths(2)
	} else {
		fromAll = c03Paths(3)
	}
	// attribute / namespace steps after reverse axes
	for _, rv := range []string{"ancestor::*", "ancestor-or-self::*", "preceding::*", "preceding-sibling::*"} {
		for _, t := range []string{"@*", "namespace::*", "@*/..", "*", "@x", "attribute::node()"} {
			fromAll = append(fromAll, rv+"/"+t, "descendant-or-self::*/"+rv+"/"+t)
		}
	}
	// predicated steps evaluated from several context nodes (nested, and in
	// reverse order after a reverse axis): the merged result must be ordered too
	pSteps := []string{"*", "a", "node()", "child::*", "@*", "descendant::*", "following-sibling::*", "preceding-sibling::*", "ancestor::*", "text()"}
	pPreds := []string{"[@x]", "[last()]", "[position() > 1]", "[1]", "[*]", "[not(*)]", "[true()][2]"}
	for _, st := range pSteps {
		for _, pr := range pPreds {
			for _, cx := range []string{"ancestor-or-self::*", "preceding::*", "descendant-or-self::*", "*"} {
				fromAll = append(fromAll, cx+"/"+st+pr)
			}
			for _, cx := range []string{"//*", "//node()", "//*/.."} {
				fromRoot = append(fromRoot, cx+"/"+st+pr)
			}
		}
	}
	u := c03Universe
	if quick {
		u = u[:20]
	}
	fromRoot = append(fromRoot, u...)
	for _, a := range u {
		for _, b := range u {
			fromRoot = append(fromRoot, a+" | "+b, "count("+a+" | "+b+")")
		}
	}
	// associativity / idempotence shapes
	tri := u
	if len(tri) > 6 {
		tri = []string{"//a", "//*/ancestor::*", "//*/@*", "//*/preceding::node()", "//b/..//a", "//*/namespace::*"}
	}
	if !quick {
		tri = u[:16]
	}
	for _, a := range tri {
		for _, b := range tri {
			for _, c := range tri {
				fromRoot = append(fromRoot, "("+a+" | "+b+") | "+c, a+" | ("+b+" | "+c+")")
			}
		}
	}
	return
}

func C03(c *run.Check) {
	defer finishTriage()
	n := 3
	if !c.Quick() {
		n = 4
	}
	fromAllT, fromRootT := c03Exprs(c.Quick())
	fromAll, fromRoot := mustParse(fromAllT), mustParse(fromRootT)
	for _, l := range [][]refExpr{fromAll, fromRoot} {
		for _, e := range l {
			if e.Err != nil {
				fmt.Println("harness: reference parser rejects", e.Text, e.Err)
			}
		}
	}
	c.Rule = fmt.Sprintf("forests with <=%d nodes over {a,b,text,comment,PI} x decorations D0-D2, D5: %d multi-step paths over 13 axes x {node(),*} (and attribute/namespace steps after reverse axes, and 10 step forms x 7 predicates after multi-node context sets) from EVERY context node; forests with <=%d nodes x D0-D2, D5: %d paths, pairwise unions, count() of unions and association shapes from the root; every ordered forest of 4-6 (thorough: 7) elements x all one- and two-step paths over 13 axes from EVERY context node (subtrees of depth >=3 beside and above the context node). Oracle on the implementation's own answer: no node twice, no foreign cursor, strictly monotone in document order, ascending without reverse axis and for unions; plus identity-set equality with the reference (union = sorted set union, count = inclusion-exclusion). non-trivial = distinct (expression, context kind, non-empty size)", n, len(fromAll), n+1, len(fromRoot))
	shapesA := c01Shapes(n)
	shapesB := c01Shapes(n + 1)
	decos := []int{adoc.D0, adoc.D1, adoc.D2, adoc.D5}
	r := newXRunner(c, "C03", c01Env)
	r.extra = c03Order
	type job struct {
		f    []*adoc.Tm
		deco int
	}
	mk := func(shapes [][]*adoc.Tm) []job {
		var jobs []job
		for _, f := range shapes {
			for _, d := range decos {
				jobs = append(jobs, job{f, d})
			}
		}
		return jobs
	}
	ja, jb := mk(shapesA), mk(shapesB)
	if c.Quick() {
		// quick: the largest shapes only with the attribute+namespace decoration
		var f []job
		for _, j := range jb {
			if treeSize(j.f) <= n || j.deco == adoc.D2 {
				f = append(f, j)
			}
		}
		jb = f
	}
	rootOnly := func(n *adoc.Node) bool { return n.Kind == adoc.Root }
	// the small families first: when the time cap cuts the run short it cuts the large grids
	// namespace declarations reported twice in a row (as the XML adaptor reports a
	// default-namespace declaration): the second report replaces the first node
	// in place, and every node keeps a position of its own
	{
		var rep []job
		for _, j := range ja {
			if j.deco == adoc.D5 || j.deco == adoc.D2 {
				rep = append(rep, j)
			}
		}
		for _, f := range shapesA {
			rep = append(rep, job{f, adoc.D3})
		}
		r.runGrid(len(rep), func(i int) *adoc.Doc {
			d := adoc.Instantiate(rep[i].f, rep[i].deco)
			d.RepeatDecls = true
			return d
		}, fromRoot, rootOnly)
		c.Set("documents_with_repeated_declarations", len(rep))
	}
	// deeper trees: every ordered forest of up to 6 (thorough: 7) elements, so that
	// subtrees of depth 3 and more hang off preceding / following siblings and
	// ancestors; all one- and two-step paths from every context node
	{
		dn := 6
		if !c.Quick() {
			dn = 7
		}
		deep := adoc.Forests(dn, adoc.ShapeCfg{Names: []string{"a"}})
		var keep [][]*adoc.Tm
		for _, f := range deep {
			if treeSize(f) > n { // smaller ones are covered above
				keep = append(keep, f)
			}
		}
		deepPaths := mustParse(c03Paths(2))
		r.runGrid(len(keep), func(i int) *adoc.Doc { return adoc.Instantiate(keep[i], adoc.D0) }, deepPaths, nil)
		c.Set("deep_element_forests_all_contexts", len(keep))
	}
	r.runGrid(len(ja), func(i int) *adoc.Doc { return adoc.Instantiate(ja[i].f, ja[i].deco) }, fromAll, nil)
	r.runGrid(len(jb), func(i int) *adoc.Doc { return adoc.Instantiate(jb[i].f, jb[i].deco) }, fromRoot, rootOnly)
	for i := 7; i < len(jb); i += len(jb)/6 + 1 {
		c.Sample(map[string]string{"doc": adoc.Instantiate(jb[i].f, jb[i].deco).String(), "expr": fromRootT[(i*131)%len(fromRootT)]})
	}
	c.Set("documents_all_contexts", len(ja))
	c.Set("documents_root_context", len(jb))
	c.Assume("document order = order of the implementation's own Children()/Attributes()/Namespaces() lists (their consistency with Pos() is C10)")
}

func init() {
	Registry["C03"] = Prop{"exploration", C03}
	replayers["C03"] = func(raw json.RawMessage) string {
		var x XCase
		if err := json.Unmarshal(raw, &x); err != nil {
			return err.Error()
		}
		if msg := replayX(x, false); msg != "" {
			return msg
		}
		// order oracle
		_, b, err := x.Rebuild()
		if err != nil {
			return err.Error()
		}
		ctx := b.Doc.Resolve(x.Ctx)
		ast, _ := refxp.Parse(x.Expr, refxp.Options{})
		g, _ := BuildImpl(x.Expr)
		if g == nil {
			return ""
		}
		got := ExecImpl(b, b.ToCur[ctx], g, x.Env.ImplSettings(b))
		return c03Order(b.Doc, ctx, refExpr{x.Expr, ast, nil}, got, got, x.Env)
	}
}
