package props

import (
	"bytes"
	"encoding/json"
	"fmt"
	"io"
	"strconv"
	"strings"
	"unicode/utf16"

	"github.com/ChrisTrenkamp/xsel"
	"github.com/ChrisTrenkamp/xsel/store"

	"xv/adoc"
	"xv/impl"
	"xv/run"
)

// ---- C16: ReadJson maps JSON to the documented #obj/#arr element tree ---------

// jv is a JSON value of the generated universe / of the reference recogniser.
type jv struct {
	kind byte // 'o' object, 'a' array, 's' string, 'n' number, 'l' literal
	keys []string
	kids []*jv
	text string  // string value, literal text, or numeral as written
	num  float64 // for 'n'
}

// ---- independent JSON recogniser (RFC 8259 values separated by whitespace) ----

type jparser struct {
	s []byte
	i int
}

func (p *jparser) ws() bool {
	st := p.i
	for p.i < len(p.s) && (p.s[p.i] == ' ' || p.s[p.i] == '\t' || p.s[p.i] == '\n' || p.s[p.i] == '\r') {
		p.i++
	}
	return p.i > st
}

var errJSON = fmt.Errorf("not JSON")

func (p *jparser) value(depth int) (*jv, error) {
	if p.i >= len(p.s) || depth > 200 {
		return nil, errJSON
	}
	switch c := p.s[p.i]; {
	case c == '{':
		p.i++
		o := &jv{kind: 'o'}
		p.ws()
		if p.i < len(p.s) && p.s[p.i] == '}' {
			p.i++
			return o, nil
		}
		for {
			p.ws()
			k, err := p.str()
			if err != nil {
				return nil, err
			}
			p.ws()
			if p.i >= len(p.s) || p.s[p.i] != ':' {
				return nil, errJSON
			}
			p.i++
			p.ws()
			v, err := p.value(depth + 1)
			if err != nil {
				return nil, err
			}
			o.keys = append(o.keys, k)
			o.kids = append(o.kids, v)
			p.ws()
			if p.i < len(p.s) && p.s[p.i] == ',' {
				p.i++
				continue
			}
			if p.i < len(p.s) && p.s[p.i] == '}' {
				p.i++
				return o, nil
			}
			return nil, errJSON
		}
	case c == '[':
		p.i++
		a := &jv{kind: 'a'}
		p.ws()
		if p.i < len(p.s) && p.s[p.i] == ']' {
			p.i++
			return a, nil
		}
		for {
			p.ws()
			v, err := p.value(depth + 1)
			if err != nil {
				return nil, err
			}
			a.kids = append(a.kids, v)
			p.ws()
			if p.i < len(p.s) && p.s[p.i] == ',' {
				p.i++
				continue
			}
			if p.i < len(p.s) && p.s[p.i] == ']' {
				p.i++
				return a, nil
			}
			return nil, errJSON
		}
	case c == '"':
		s, err := p.str()
		if err != nil {
			return nil, err
		}
		return &jv{kind: 's', text: s}, nil
	case c == '-' || (c >= '0' && c <= '9'):
		st := p.i
		if c == '-' {
			p.i++
		}
		if p.i >= len(p.s) {
			return nil, errJSON
		}
		if p.s[p.i] == '0' {
			p.i++
		} else if p.s[p.i] >= '1' && p.s[p.i] <= '9' {
			for p.i < len(p.s) && p.s[p.i] >= '0' && p.s[p.i] <= '9' {
				p.i++
			}
		} else {
			return nil, errJSON
		}
		if p.i < len(p.s) && p.s[p.i] == '.' {
			p.i++
			d := p.i
			for p.i < len(p.s) && p.s[p.i] >= '0' && p.s[p.i] <= '9' {
				p.i++
			}
			if p.i == d {
				return nil, errJSON
			}
		}
		if p.i < len(p.s) && (p.s[p.i] == 'e' || p.s[p.i] == 'E') {
			p.i++
			if p.i < len(p.s) && (p.s[p.i] == '+' || p.s[p.i] == '-') {
				p.i++
			}
			d := p.i
			for p.i < len(p.s) && p.s[p.i] >= '0' && p.s[p.i] <= '9' {
				p.i++
			}
			if p.i == d {
				return nil, errJSON
			}
		}
		t := string(p.s[st:p.i])
		f, err := strconv.ParseFloat(t, 64)
		if err != nil {
			return nil, errJSON // out of range: outside the universe
		}
		return &jv{kind: 'n', text: t, num: f}, nil
	default:
		for _, l := range []string{"true", "false", "null"} {
			if bytes.HasPrefix(p.s[p.i:], []byte(l)) {
				p.i += len(l)
				return &jv{kind: 'l', text: l}, nil
			}
		}
	}
	return nil, errJSON
}

func (p *jparser) str() (string, error) {
	if p.i >= len(p.s) || p.s[p.i] != '"' {
		return "", errJSON
	}
	p.i++
	var sb strings.Builder
	for p.i < len(p.s) {
		c := p.s[p.i]
		switch {
		case c == '"':
			p.i++
			return sb.String(), nil
		case c == '\\':
			if p.i+1 >= len(p.s) {
				return "", errJSON
			}
			e := p.s[p.i+1]
			p.i += 2
			switch e {
			case '"', '\\', '/':
				sb.WriteByte(e)
			case 'n':
				sb.WriteByte('\n')
			case 't':
				sb.WriteByte('\t')
			case 'r':
				sb.WriteByte('\r')
			case 'b':
				sb.WriteByte('\b')
			case 'f':
				sb.WriteByte('\f')
			case 'u':
				if p.i+4 > len(p.s) {
					return "", errJSON
				}
				n, err := strconv.ParseUint(string(p.s[p.i:p.i+4]), 16, 32)
				if err != nil {
					return "", errJSON
				}
				p.i += 4
				r := rune(n)
				if utf16.IsSurrogate(r) {
					// a surrogate pair \uD83D\uDE00 denotes one character; a lone surrogate U+FFFD
					r2 := rune(-1)
					if p.i+6 <= len(p.s) && p.s[p.i] == '\\' && p.s[p.i+1] == 'u' {
						if m, err := strconv.ParseUint(string(p.s[p.i+2:p.i+6]), 16, 32); err == nil {
							r2 = rune(m)
						}
					}
					if dec := utf16.DecodeRune(r, r2); dec != 0xFFFD {
						p.i += 6
						r = dec
					} else {
						r = 0xFFFD
					}
				}
				sb.WriteRune(r)
			default:
				return "", errJSON
			}
		case c < 0x20:
			return "", errJSON
		default:
			sb.WriteByte(c)
			p.i++
		}
	}
	return "", errJSON
}

// jsonJudge: 1 = complete sequence of values (returned), 0 = malformed,
// -1 = don't care (top-level values adjacent without whitespace).
func jsonJudge(text string) (int, []*jv) {
	p := &jparser{s: []byte(text)}
	var vals []*jv
	p.ws()
	for p.i < len(p.s) {
		v, err := p.value(0)
		if err != nil {
			return 0, nil
		}
		vals = append(vals, v)
		if !p.ws() && p.i < len(p.s) {
			return -1, nil
		}
	}
	return 1, vals
}

// ---- comparison with the cursor tree --------------------------------------------

func jsonNumOK(f float64, text string) bool {
	g, err := strconv.ParseFloat(text, 64)
	if err != nil || g != f {
		return false
	}
	return len(text) <= len(strconv.FormatFloat(f, 'g', -1, 64))
}

// jsonMatch walks expected values against the children list of a cursor.
func jsonMatch(vals []*jv, kids []store.Cursor, path string) string {
	if len(vals) != len(kids) {
		return fmt.Sprintf("%s: %d child nodes, want %d", path, len(kids), len(vals))
	}
	for i, v := range vals {
		n, err := impl.NodeOf(kids[i])
		if err != nil {
			return err.Error()
		}
		here := fmt.Sprintf("%s/%d", path, i)
		if len(kids[i].Attributes()) != 0 {
			return here + ": has attributes"
		}
		switch v.kind {
		case 'o', 'a':
			name := "#obj"
			if v.kind == 'a' {
				name = "#arr"
			}
			if n.Kind != adoc.Elem || n.Local != name || n.Space != "" {
				return fmt.Sprintf("%s: got %s, want element %s", here, n.Describe(), name)
			}
			if v.kind == 'a' {
				if msg := jsonMatch(v.kids, kids[i].Children(), here); msg != "" {
					return msg
				}
				continue
			}
			mk := kids[i].Children()
			if len(mk) != len(v.keys) {
				return fmt.Sprintf("%s: object has %d member elements, want %d", here, len(mk), len(v.keys))
			}
			for j, k := range v.keys {
				mn, _ := impl.NodeOf(mk[j])
				if mn == nil || mn.Kind != adoc.Elem || mn.Local != k || mn.Space != "" {
					return fmt.Sprintf("%s: member %d is %v, want element named %q", here, j, mn, k)
				}
				if msg := jsonMatch([]*jv{v.kids[j]}, mk[j].Children(), here+"/"+k); msg != "" {
					return msg
				}
			}
		default:
			if n.Kind != adoc.Text {
				return fmt.Sprintf("%s: got %s, want a text node", here, n.Describe())
			}
			if len(kids[i].Children()) != 0 {
				return here + ": text node with children"
			}
			if v.kind == 'n' {
				if !jsonNumOK(v.num, n.Value) {
					return fmt.Sprintf("%s: number %s rendered as %q (must read back to the same double and be no longer than %q)", here, v.text, n.Value, strconv.FormatFloat(v.num, 'g', -1, 64))
				}
			} else if n.Value != v.text {
				return fmt.Sprintf("%s: text %q, want %q", here, n.Value, v.text)
			}
		}
	}
	return ""
}

// chunkReader delivers data with an optional short read at byte cut and an
// optional I/O error at byte failAt.
type chunkReader struct {
	data   []byte
	pos    int
	cut    int // -1: none
	failAt int // -1: none
}

var errInjected = fmt.Errorf("injected I/O error")

func (r *chunkReader) Read(p []byte) (int, error) {
	if r.failAt >= 0 && r.pos >= r.failAt {
		return 0, errInjected
	}
	if r.pos >= len(r.data) {
		return 0, io.EOF
	}
	end := len(r.data)
	if r.cut > r.pos {
		end = r.cut
	}
	if r.failAt >= 0 && r.failAt < end && r.failAt > r.pos {
		end = r.failAt
	}
	n := copy(p, r.data[r.pos:end])
	r.pos += n
	return n, nil
}

type c16Case struct {
	Kind   string `json:"kind"`
	Text   string `json:"text"`
	Cut    int    `json:"cut"`
	FailAt int    `json:"failAt"`
	Detail string `json:"detail"`
}

// c16Check runs one text (with reader deviations) and returns "" or a message.
func c16Check(text string, cut, failAt int) string {
	verdict, vals := jsonJudge(text)
	var cur xsel.Cursor
	var err error
	func() {
		defer func() {
			if r := recover(); r != nil {
				err = fmt.Errorf("PANIC: %v", r)
			}
		}()
		defer run.Track("ReadJson", text)()
		cur, err = xsel.ReadJson(&chunkReader{data: []byte(text), cut: cut, failAt: failAt})
	}()
	if err != nil && strings.HasPrefix(err.Error(), "PANIC") {
		return err.Error()
	}
	if failAt >= 0 && failAt < len(text) {
		// an I/O error before the end of the text must surface, unless everything
		// before it already is... no: the reader failed, the document is unknown
		if err == nil {
			return fmt.Sprintf("reader failed at byte %d but ReadJson returned a tree and a nil error", failAt)
		}
		return ""
	}
	switch verdict {
	case -1:
		return ""
	case 0:
		if err == nil {
			got := "?"
			if b, e := impl.Read(cur); e == nil {
				got = b.Doc.String()
			}
			return fmt.Sprintf("malformed/truncated JSON accepted with a nil error; tree: %s", got)
		}
		return ""
	}
	if err != nil {
		return "valid JSON rejected: " + err.Error()
	}
	if cur == nil {
		return "nil cursor with nil error"
	}
	if n, e := impl.NodeOf(cur); e == nil && n != nil && len(cur.Attributes())+len(cur.Namespaces()) != 0 {
		return "root has attributes/namespaces"
	}
	return jsonMatch(vals, cur.Children(), "")
}

// ---- generator ----------------------------------------------------------------------

var c16Scalars = []string{`1`, `"x"`, `true`, `null`, `-0`, `1.5`, `1e21`, `1e-7`, `false`, `""`, `"a b"`, `"é\n"`, `0.1`, `12345678901234567890`, `"#obj"`,
	`0.30000000000000004`, `1.7976931348623157e308`, `5e-324`, `1E5`, `-1.5e-3`, `9007199254740993`, `"\u00e9\ud83d\ude00"`, `"q\"\\\/"`, `"<&>"`, `123456789`, `0.000001`, `1e-5`, `100000000000000000000`, `2.5E+3`}
var c16Keys = []string{"a", "b", "", "#obj", "a"}

// c16Values enumerates JSON texts by token budget and depth; ws selects the
// whitespace regime.
func c16Values(budget, depth int, nscalars int) []string {
	type key struct{ b, d int }
	memo := map[key][]string{}
	var gen func(b, d int) []string
	// seqs(b,d): all comma-separated item lists using exactly... up to b tokens
	var items func(b, d int, obj bool) []string
	gen = func(b, d int) []string {
		if b <= 0 {
			return nil
		}
		if v, ok := memo[key{b, d}]; ok {
			return v
		}
		out := append([]string{}, c16Scalars[:nscalars]...)
		if d > 0 {
			out = append(out, "[]", "{}")
			for _, it := range items(b-1, d-1, false) {
				out = append(out, "["+it+"]")
			}
			for _, it := range items(b-1, d-1, true) {
				out = append(out, "{"+it+"}")
			}
		}
		memo[key{b, d}] = out
		return out
	}
	items = func(b, d int, obj bool) []string {
		// non-empty lists whose members cost 1 token per scalar/empty container
		var out []string
		if b <= 0 {
			return nil
		}
		var rec func(prefix string, left int, n int)
		rec = func(prefix string, left int, n int) {
			if left <= 0 || n >= 3 {
				return
			}
			for _, v := range gen(left, d) {
				cost := strings.Count(v, ",") + 1
				if cost > left {
					continue
				}
				m := v
				if obj {
					m = `"` + c16Keys[(n+len(prefix))%len(c16Keys)] + `":` + v
				}
				cur := m
				if prefix != "" {
					cur = prefix + "," + m
				}
				out = append(out, cur)
				rec(cur, left-cost, n+1)
			}
		}
		rec("", b, 0)
		return out
	}
	return gen(budget, depth)
}

func wsRegime(text string, mode int) string {
	if mode == 0 {
		return text
	}
	var sb strings.Builder
	in := false
	for i := 0; i < len(text); i++ {
		c := text[i]
		if c == '"' && (i == 0 || text[i-1] != '\\') {
			in = !in
		}
		if !in && (c == ',' || c == ':' || c == '[' || c == ']' || c == '{' || c == '}') {
			if mode == 1 {
				sb.WriteString(" " + string(c) + " ")
			} else {
				sb.WriteString("\n\t" + string(c) + "\r\n ")
			}
			continue
		}
		sb.WriteByte(c)
	}
	return sb.String()
}

func C16(c *run.Check) {
	defer finishTriage()
	budget, depth, ns := 4, 3, 6
	if !c.Quick() {
		budget, depth, ns = 5, 3, 8
	}
	vals := c16Values(budget, depth, ns)
	// also every scalar alone, in an array, as a member, and a few hand-written shapes
	vals = append(vals, c16Scalars...)
	for _, sc := range c16Scalars {
		vals = append(vals, "["+sc+"]", `{"k":`+sc+`}`, "[1,"+sc+",[]]", `{"é":`+sc+`,"a b":[`+sc+`]}`)
	}
	// strings and keys that spell structural tokens: a string token is never a delimiter
	for _, sp := range []string{`"["`, `"]"`, `"{"`, `"}"`, `","`, `":"`, `"[]"`, `"{}"`, `"\""`, `"null"`, `"true"`, `"1"`, `"#arr"`} {
		vals = append(vals, sp, "["+sp+"]", "["+sp+","+sp+"]", "[["+sp+"],"+sp+"]", "[[1,"+sp+"],2]", "{"+sp+":1}", "{"+sp+":["+sp+"]}", `{"a":`+sp+`,"b":1}`, "{"+sp+":{"+sp+":"+sp+"}}", "["+sp+",[],{}]")
	}
	// deep nesting (the adapter's state stack grows; members follow the nested
	// container at every level): depth 1..40 in four shapes
	for d := 1; d <= 40; d++ {
		obj, arr, oa, ao := `{"x":[1],"y":2}`, `[1]`, `{"x":[1],"y":2}`, `[{"k":1},0]`
		for k := 1; k <= d; k++ {
			obj = `{"a":` + obj + `,"z":` + strconv.Itoa(k) + `}`
			arr = `[` + arr + `,` + strconv.Itoa(k) + `]`
			oa = `{"a":[` + oa + `,1],"b":2}`
			ao = `[{"k":` + ao + `},0]`
		}
		vals = append(vals, obj, arr, oa, ao)
	}
	// long containers: every member count from 1 to 120 as array and as object
	for k := 1; k <= 120; k++ {
		var a, o strings.Builder
		a.WriteString("[")
		o.WriteString("{")
		for i := 0; i < k; i++ {
			if i > 0 {
				a.WriteString(",")
				o.WriteString(",")
			}
			fmt.Fprintf(&a, `%d`, i)
			fmt.Fprintf(&o, `"k%d":[%d]`, i, i)
		}
		a.WriteString("]")
		o.WriteString("}")
		vals = append(vals, a.String(), o.String())
	}
	vals = append(vals, `["[","]"]`, `["{","}"]`, `{"[":"]","{":"}"}`, `[["x","]"],"y"]`, `{"a":"{","b":1}`)
	vals = append(vals, `{"a":{"b":[{"a":1},[],{}]},"b":[[[]]]}`, `[{"a":[1,{"b":null}]},2]`, `{"a":[],"b":{},"a":[{}]}`, `[[],[[]],[[],[]]]`, `{"":{"":{"":1}}}`, `[1,[2,[3,[4]]]]`, `{"a":"x","a":"y"}`)
	var texts []string
	for i, v := range vals {
		texts = append(texts, v)
		if i%3 == 0 {
			texts = append(texts, wsRegime(v, 1))
		}
		if i%5 == 0 {
			texts = append(texts, " "+wsRegime(v, 2)+"\n")
		}
	}
	// several top-level values
	for i := 0; i+2 < len(vals); i += 7 {
		texts = append(texts, vals[i]+" "+vals[i+1], vals[i]+"\n"+vals[i+1]+" "+vals[i+2])
	}
	report := func(kind, text string, cut, failAt int, msg string) {
		cs := c16Case{Kind: kind, Text: text, Cut: cut, FailAt: failAt, Detail: msg}
		if triage {
			cls := msg
			if len(cls) > 50 {
				cls = cls[:50]
			}
			tri.add(kind+": "+cls, fmt.Sprintf("%q cut=%d failAt=%d: %s", text, cut, failAt, msg))
			return
		}
		c.Violation(cs, fmt.Sprintf("[%s] %q (short read at %d, I/O error at %d): %s", kind, text, cut, failAt, msg))
	}
	var wellFormed, malformed int64
	run.ParallelW(len(texts), func(w, i int) {
		if (!triage && c.Violations() > 0) || c.TimeUp() {
			return
		}
		t := texts[i]
		c.Evaluations.Add(1)
		if msg := c16Check(t, -1, -1); msg != "" {
			report("document", t, -1, -1, msg)
			return
		}
		c.Distinct("doc|" + t)
		var wf, mf int64 = 1, 0
		// every proper prefix (all truncation points)
		for k := 0; k < len(t); k++ {
			c.Evaluations.Add(1)
			if v, _ := jsonJudge(t[:k]); v == 1 {
				wf++
			} else if v == 0 {
				mf++
			}
			if msg := c16Check(t[:k], -1, -1); msg != "" {
				report("truncated", t[:k], -1, -1, msg)
				return
			}
		}
		// single-byte deletion / duplication of every structural byte
		for k := 0; k < len(t); k++ {
			if strings.IndexByte(`{}[],:"`, t[k]) < 0 {
				continue
			}
			for _, m := range []string{t[:k] + t[k+1:], t[:k+1] + t[k:]} {
				c.Evaluations.Add(1)
				if v, _ := jsonJudge(m); v == 0 {
					mf++
				}
				if msg := c16Check(m, -1, -1); msg != "" {
					report("mutated", m, -1, -1, msg)
					return
				}
			}
		}
		// reader deviations: one short read at every byte, one I/O error at every byte
		if i%4 == 0 || !c.Quick() {
			for k := 1; k < len(t); k++ {
				c.Evaluations.Add(2)
				if msg := c16Check(t, k, -1); msg != "" {
					report("short-read", t, k, -1, msg)
					return
				}
				if msg := c16Check(t, -1, k); msg != "" {
					report("io-error", t, -1, k, msg)
					return
				}
			}
		}
		c.Add("complete_value_sequences", wf)
		c.Add("malformed_texts", mf)
	})
	_ = wellFormed
	_ = malformed
	for i := 3; i < len(texts); i += len(texts)/6 + 1 {
		c.Sample(texts[i])
	}
	c.Set("json_texts", len(texts))
	c.Rule = fmt.Sprintf("every JSON value with <=%d scalar/empty-container tokens and nesting depth <=%d over keys {a,b,\"\",#obj,duplicate a} and %d scalars (numbers -0, 1.5, 1e21, 1e-7, 20-digit; strings incl. empty/escapes and strings/keys that spell structural tokens such as \"[\" or \"}\"; true/false/null), in 3 whitespace regimes, nesting depth 1-40 in four shapes with members after the nested container at every level, arrays and objects of every member count 1-120, plus 1-3 concatenated top-level values (%d texts): tree compared with a direct recursive mapping; EVERY proper prefix of every text and every single structural-byte deletion/duplication judged by an independent JSON recogniser (error iff not a complete value sequence); reader deviations: one short read / one I/O error at every byte offset; non-trivial = distinct well-formed text with matching tree", budget, depth, ns, len(texts))
	c.Assume("top-level values adjacent without whitespace are not judged; numerals out of double range are outside the universe")
}

func init() {
	Registry["C16"] = Prop{"fault_enumeration", C16}
	replayers["C16"] = func(raw json.RawMessage) string {
		var cs c16Case
		json.Unmarshal(raw, &cs)
		return c16Check(cs.Text, cs.Cut, cs.FailAt)
	}
}
