package props

import (
	"fmt"
	"go/ast"
	"go/parser"
	"go/token"
	"os"
	"path/filepath"
	"sort"
	"strings"
)

// c14GlobalWrites is the static half of the read-only argument of C14: the
// dynamic audit fingerprints the objects the scenario's threads share, but not
// the library's package-level variables. This scan lists every package-level
// variable of the library packages (the CLI excluded) and every statement
// outside init() that assigns to one, to an element/field of one, or hands one
// to delete/copy/sort. Method calls with pointer receivers on globals and
// writes through aliases are not seen (said so in the evidence).
func c14GlobalWrites(repo string) (nvars int, writes []string, err error) {
	n, w, _, e := c14GlobalScan(repo)
	return n, w, e
}

// c14GlobalScan additionally lists package-level variables that are
// synchronisation objects (types of sync / sync/atomic): shared mutable state by
// construction, invisible to fingerprints.
func c14GlobalScan(repo string) (nvars int, writes []string, syncVars []string, err error) {
	var dirs []string
	filepath.Walk(repo, func(p string, info os.FileInfo, e error) error {
		if e != nil || !info.IsDir() {
			return nil
		}
		rel, _ := filepath.Rel(repo, p)
		if strings.HasPrefix(info.Name(), ".") && rel != "." {
			return filepath.SkipDir
		}
		if rel == "xsel" || rel == "docs" || rel == "examples" {
			return filepath.SkipDir
		}
		dirs = append(dirs, p)
		return nil
	})
	for _, dir := range dirs {
		fset := token.NewFileSet()
		pkgs, perr := parser.ParseDir(fset, dir, func(fi os.FileInfo) bool { return !strings.HasSuffix(fi.Name(), "_test.go") }, 0)
		if perr != nil {
			return 0, nil, nil, perr
		}
		for _, pkg := range pkgs {
			globals := map[string]bool{}
			for _, f := range pkg.Files {
				for _, d := range f.Decls {
					if gd, ok := d.(*ast.GenDecl); ok && gd.Tok == token.VAR {
						for _, sp := range gd.Specs {
							vs := sp.(*ast.ValueSpec)
							usesSync := false
							probe := func(e ast.Expr) {
								if e == nil {
									return
								}
								ast.Inspect(e, func(x ast.Node) bool {
									if se, ok := x.(*ast.SelectorExpr); ok {
										if id, ok := se.X.(*ast.Ident); ok && (id.Name == "sync" || id.Name == "atomic") {
											usesSync = true
										}
									}
									return true
								})
							}
							probe(vs.Type)
							for _, v := range vs.Values {
								probe(v)
							}
							for _, n := range vs.Names {
								if n.Name != "_" {
									globals[n.Name] = true
									nvars++
									if usesSync {
										rel, _ := filepath.Rel(repo, fset.Position(n.Pos()).Filename)
										syncVars = append(syncVars, fmt.Sprintf("%s:%d %s", rel, fset.Position(n.Pos()).Line, n.Name))
									}
								}
							}
						}
					}
				}
			}
			if len(globals) == 0 {
				continue
			}
			isGlobal := func(e ast.Expr) (string, bool) {
				for {
					switch x := e.(type) {
					case *ast.IndexExpr:
						e = x.X
					case *ast.SelectorExpr:
						e = x.X
					case *ast.StarExpr:
						e = x.X
					case *ast.ParenExpr:
						e = x.X
					case *ast.SliceExpr:
						e = x.X
					case *ast.Ident:
						if !globals[x.Name] {
							return "", false
						}
						if x.Obj != nil {
							// resolved inside this file: global only if declared by a file-level ValueSpec
							if vs, ok := x.Obj.Decl.(*ast.ValueSpec); ok {
								for _, f := range pkg.Files {
									for _, d := range f.Decls {
										if gd, ok := d.(*ast.GenDecl); ok {
											for _, sp := range gd.Specs {
												if sp == ast.Spec(vs) {
													return x.Name, true
												}
											}
										}
									}
								}
							}
							return "", false
						}
						return x.Name, true
					default:
						return "", false
					}
				}
			}
			for _, f := range pkg.Files {
				for _, d := range f.Decls {
					fd, ok := d.(*ast.FuncDecl)
					if !ok || fd.Body == nil || (fd.Recv == nil && fd.Name.Name == "init") {
						continue
					}
					ast.Inspect(fd.Body, func(n ast.Node) bool {
						report := func(pos token.Pos, name, what string) {
							p := fset.Position(pos)
							rel, _ := filepath.Rel(repo, p.Filename)
							writes = append(writes, fmt.Sprintf("%s:%d %s %s in %s", rel, p.Line, what, name, fd.Name.Name))
						}
						switch x := n.(type) {
						case *ast.AssignStmt:
							if x.Tok == token.DEFINE {
								return true
							}
							for _, l := range x.Lhs {
								if name, ok := isGlobal(l); ok {
									report(l.Pos(), name, "assignment to")
								}
							}
						case *ast.IncDecStmt:
							if name, ok := isGlobal(x.X); ok {
								report(x.Pos(), name, "inc/dec of")
							}
						case *ast.CallExpr:
							fn := ""
							switch c := x.Fun.(type) {
							case *ast.Ident:
								fn = c.Name
							case *ast.SelectorExpr:
								if id, ok := c.X.(*ast.Ident); ok {
									fn = id.Name + "." + c.Sel.Name
								}
							}
							if (fn == "delete" || fn == "copy" || fn == "clear" || strings.HasPrefix(fn, "sort.") || strings.HasPrefix(fn, "slices.Sort")) && len(x.Args) > 0 {
								if name, ok := isGlobal(x.Args[0]); ok {
									report(x.Pos(), name, fn+" on")
								}
							}
						case *ast.UnaryExpr:
							if x.Op == token.AND {
								if name, ok := isGlobal(x.X); ok {
									report(x.Pos(), name, "address taken of")
								}
							}
						}
						return true
					})
				}
			}
		}
	}
	sort.Strings(writes)
	sort.Strings(syncVars)
	return nvars, writes, syncVars, nil
}

func init() {
	// xv c14-globals <repo>: print the static scan (diagnostic)
	Sub["c14-globals"] = func(args []string) int {
		n, w, err := c14GlobalWrites(args[0])
		fmt.Println("package-level vars:", n, "err:", err)
		for _, l := range w {
			fmt.Println(l)
		}
		return 0
	}
}
