package props

import (
	"encoding/json"
	"fmt"
	"math"

	"github.com/ChrisTrenkamp/xsel"

	"xv/adoc"
	"xv/impl"
	"xv/refxp"
	"xv/run"
)

// ---- C04: string(), number(), boolean() and implicit conversions ------------------

var c04Sigma = []string{" ", "\t", "\n", "-", "+", ".", "0", "1", "e", "E", "x", "_", "\u00a0", "\u0663"}
var c04Words = []string{"\v1", "1\f", "1\u0085", "\u20031\u2003", "\u30001", "\ufeff1", "\u00a042", "1\u2028", "\x001", "1\x1f", "Infinity", "-Infinity", "NaN", "inf", "Inf", "nan", "0x10", "1e3", "1E-2", "1_0", "+1", "1.", ".5", "-.5", "- 1", "1 2", "١", "12345678901234567890123", "0.000000000000000000001",
	"1" + string(make([]byte, 0)), "  12.50  ", "\r\n7\r\n", "--1", "1-", "1.2.3", ".", "-", "", "00012", "1e400", "9" + "99999999999999999999999999999999999999999999999999999999999999999999999999999999999999999999999999999999999999999999999999999999999999999999999999999999999999999999999999999999999999999999999999999999999999999999999999999999999999999999999999999999999999999999999999999999999999999999999999999999999999999999999999"}

var c04Numbers = []float64{
	0, math.Copysign(0, -1), 1, -1, 0.5, -0.5, 1.5, 100, 1e-7, 1.5e-7, 1e21, 1.5e21, 1e-5, 123456789012345680000, 0.1, 1.0 / 3, 9007199254740992, 9007199254740993, 9223372036854775808, 18446744073709551616,
	math.MaxFloat64, -math.MaxFloat64, math.SmallestNonzeroFloat64, -math.SmallestNonzeroFloat64, 2.2250738585072014e-308, 1e300, 1e-300, 4.9e-324, 0.000001, 1234.5678, -1e-7, 1e22, 1e23, 5e-324, math.NaN(), math.Inf(1), math.Inf(-1),
}

// c04NumStrJudge: number->string is judged by the statement's own criterion.
func c04NumStrJudge(e refExpr, vals []VarSpec, got, want Outcome) string {
	if got.Panic != "" || got.Err || got.Nil {
		return "conversion failed"
	}
	if got.Type != "string" {
		return "not a string"
	}
	f := parseNumExact(vals[0])
	if !refxp.NumberStringOK(f, got.Str) {
		return fmt.Sprintf("string(%v) = %q is not NaN/Infinity/-Infinity/0 or an exponent-free decimal (integers without point) that reads back to the same double", f, got.Str)
	}
	return ""
}

func parseNumExact(v VarSpec) float64 { return parseNum(v.Num) }

func c04TypedValues() []VarSpec {
	vals := []VarSpec{boolVar("x", true), boolVar("x", false)}
	for _, f := range []float64{0, math.Copysign(0, -1), 1, 1.5, -2, math.NaN(), math.Inf(1), math.Inf(-1), 1e21, 1e-7, 0.5} {
		vals = append(vals, numVar("x", f))
	}
	for _, s := range []string{"", "1", " 1 ", "abc", "1e3", "true", "false", "NaN", "-0", "0", " ", "Infinity", "+1", "2.50"} {
		vals = append(vals, strVar("x", s))
	}
	vals = append(vals, setVar("x"), setVar("x", "/0/0"), setVar("x", "/0/2", "/0/1"), setVar("x", "/0/3"), setVar("x", "/0/4", "/0/0"), setVar("x", "/0"), setVar("x", "/"), setVar("x", "/0/5"),
		setVar("x", "/0/1", "/0/5", "/0/0", "/0/2"), setVar("x", "/0/2", "/0/4", "/0/1"))
	return vals
}

func C04(c *run.Check) {
	defer finishTriage()
	d := vdoc([]string{"1", " 2 ", "x", "", "1e3", "-0.5"})
	workers := make([]*vworker, run.Workers())
	wk := func(w int) *vworker {
		if workers[w] == nil {
			workers[w] = newVWorker(d)
		}
		return workers[w]
	}
	r := &vrunner{c: c, kind: "C04"}

	// (a) string -> number
	maxLen := 4
	if true { // the larger universe runs in seconds: used in both tiers
		maxLen = 5
	}
	strs := c07Strings(c04Sigma, maxLen)
	strs = append(strs, c04Words...)
	numS := mustParse([]string{"number($s)"})[0]
	run.ParallelW(len(strs), func(w, i int) {
		if !triage && c.Violations() > 0 {
			return
		}
		c.Evaluations.Add(1)
		if r.one(wk(w), "/", numS, []VarSpec{strVar("s", strs[i])}) {
			if !math.IsNaN(refxp.StringToNumber(strs[i])) {
				c.Distinct("num|" + strs[i])
			}
		}
	})
	// the same through element text (node string-value) for the short strings
	short := c07Strings(c04Sigma, 3)
	short = append(short, c04Words...)
	numE := mustParse([]string{"number(/r)", "/r + 0", "/r = 1", "boolean(/r)", "string(/r)"})
	run.ParallelW(len(short), func(w, i int) {
		if !triage && c.Violations() > 0 {
			return
		}
		dd := adoc.NewDoc()
		e := adoc.E("r")
		if short[i] != "" {
			e.Add(adoc.T(short[i]))
		}
		dd.Root.Add(e)
		vw := newVWorker(dd.Finish())
		vw.cache = wk(w).cache
		for _, ex := range numE {
			c.Evaluations.Add(1)
			r.one(vw, "/", ex, nil)
		}
	})

	// (b) number -> string
	rs := &vrunner{c: c, kind: "C04/numstr", judge: c04NumStrJudge}
	strN := mustParse([]string{"string($n)"})[0]
	for _, f := range c04Numbers {
		c.Evaluations.Add(1)
		if rs.one(wk(0), "/", strN, []VarSpec{numVar("n", f)}) {
			c.Distinct(fmt.Sprint("str|", f))
		}
	}
	// canonical spelling where it flows into other functions + literals/arithmetic
	numExprs := mustParse([]string{"string(0)", "string(.5)", "string(1.50)", "string(100)", "string(123456789012345678901234567890)", "string(0.0000001)", "string(9007199254740993)",
		"string(-0)", "string(0 * -1)", "string(0 div 0)", "string(1 div 0)", "string(-1 div 0)", "string(1 div 3)", "string(1e0)", "concat(1.5,'|',100,'|',-0,'|',0.1)", "string-length(string(1 div 3))",
		"string(0.000000000000000000000000000000000000000000000000000000000000000000000000000000000000000000000000000000000000000000000000000000000000000000000000000000000000000000000000000000000000000000000000000000000000000000000000000000000000000000000000000000000000000000000000000000000000000000000000000000000000000000000000000000000000001)",
		"string(true())", "string(false())", "string(number('x'))", "number(true())", "number(false())", "number('')", "number(' 12 ')", "number('1e3')", "number('+1')", "number(' -1.5 ')", "number('Infinity')",
		"boolean(0)", "boolean(-0)", "boolean(0 div 0)", "boolean(1 div 0)", "boolean('')", "boolean('false')", "boolean('0')", "boolean(/r/none)", "boolean(/r)", "not(0 div 0)", "boolean(0.0000001)"})
	for _, e := range numExprs {
		c.Evaluations.Add(1)
		if e.Err != nil {
			// a numeral the XPath grammar does not have (e.g. 1e0): both must reject
			g, _ := BuildImpl(e.Text)
			if g != nil {
				if o := ExecImpl(wk(0).b, wk(0).b.Root, g, nil); !o.Err {
					c.Violation(map[string]string{"expr": e.Text}, "non-expression "+e.Text+" accepted with value "+o.String())
				}
			}
			continue
		}
		if r.oneLit(wk(0), "/", e) {
			c.Distinct(e.Text)
		}
	}

	// (c)+(f) boolean(), and implicit = explicit conversion at every builtin
	// parameter position and operator operand, for the four types
	vals := c04TypedValues()
	conv := mustParse([]string{
		"boolean($x)", "not($x)", "not(not($x))", "string($x)", "number($x)",
		"concat($x,'|')", "concat('|',$x)", "starts-with($x,'1')", "starts-with('1',$x)", "contains($x,'1')", "contains('a1',$x)", "substring-before($x,'e')", "substring-after($x,'1')",
		"substring($x,1)", "substring('abc',$x)", "substring('abcdef',2,$x)", "string-length($x)", "normalize-space($x)", "translate($x,'1','2')", "translate('112',$x,'9')", "translate('112','1',$x)",
		"floor($x)", "ceiling($x)", "round($x)", "$x + 1", "1 - $x", "$x * 2", "$x div 2", "2 div $x", "$x mod 2", "-$x", "$x or false()", "false() or $x", "$x and true()",
		"$x = true()", "$x = 1", "$x = '1'", "$x < 2", "$x != $x", "$x = $x", "$x < $x", "/r/e[$x]", "count(/r/e[$x])", "/r/e[number($x)]", "/r/e[boolean($x)]", "lang($x)",
		"concat($x, $x)", "string-length(string($x)) = string-length($x)", "number(string($x))", "boolean(string($x))", "string(number($x))", "string(boolean($x))",
	})
	run.ParallelW(len(vals)*len(conv), func(w, i int) {
		if !triage && c.Violations() > 0 {
			return
		}
		v, e := vals[i/len(conv)], conv[i%len(conv)]
		c.Evaluations.Add(1)
		if r.one(wk(w), "/0", e, []VarSpec{v}) {
			c.Distinct(e.Text + "|" + descVar(v))
		}
	})

	// (d) string-value of every node of every document, three access paths
	n := 4
	shapes := c01Shapes(n)
	type job struct {
		f    []*adoc.Tm
		deco int
	}
	var jobs []job
	for _, f := range shapes {
		for _, dc := range []int{adoc.D0, adoc.D1, adoc.D2, adoc.D3} {
			if false && treeSize(f) == n && dc != adoc.D0 && dc != adoc.D2 {
				continue
			}
			jobs = append(jobs, job{f, dc})
		}
	}
	selfStr := mustParse([]string{"string(.)", "string()", "string(self::node())", "concat(.,'')", "string-length(.)", ". = string(.)", "number(.)", "boolean(.)"})
	xr := newXRunner(c, "C04/strval", c01Env)
	xr.runGrid(len(jobs), func(i int) *adoc.Doc { return adoc.Instantiate(jobs[i].f, jobs[i].deco) }, selfStr, nil)
	// GetCursorString and Result.String() on every node
	run.ParallelW(len(jobs), func(w, i int) {
		dd := adoc.Instantiate(jobs[i].f, jobs[i].deco)
		b, err := impl.Bind(dd)
		if err != nil {
			c.Violation(map[string]string{"doc": dd.String()}, "bind: "+err.Error())
			return
		}
		for _, nd := range b.Doc.Nodes {
			c.Evaluations.Add(2)
			cur := b.ToCur[nd]
			want := nd.StringValue()
			if got := xsel.GetCursorString(cur); got != want {
				c.Violation(map[string]string{"doc": dd.String(), "node": nd.Path(), "api": "GetCursorString"}, fmt.Sprintf("GetCursorString(%s) = %q, want %q in %s", nd.Describe(), got, want, dd.String()))
			}
			if got := (xsel.NodeSet{cur}).String(); got != want {
				c.Violation(map[string]string{"doc": dd.String(), "node": nd.Path(), "api": "NodeSet.String"}, fmt.Sprintf("NodeSet{%s}.String() = %q, want %q", nd.Describe(), got, want))
			}
		}
	})

	// (e) node-set -> string/number/boolean, forward and reverse axis node-sets
	ns := mustParse([]string{"string(//*)", "string(//b)", "string(ancestor::*)", "string(ancestor-or-self::node())", "string(preceding::node())", "string(preceding-sibling::*)", "string(following::*)",
		"number(ancestor::*)", "number(preceding::node())", "boolean(ancestor::*)", "boolean(preceding::*)", "boolean(*)", "string(../*)", "string(//text())", "string(preceding::text())",
		"concat(preceding::node(), '|', following::node())", "string(ancestor::*/@x)", "string(preceding::*/@*)", "name(ancestor::*)", "name(preceding::*)", "local-name(preceding-sibling::node())",
		"string-length(preceding::*)", "starts-with(preceding::*, 't')", "preceding::* = 't1'", "string((//*)[last()]/preceding::*)", "ancestor::* = .", "sum(preceding::text()) = sum(preceding::text())"})
	xe := newXRunner(c, "C04/nodeset", c01Env)
	shapes3 := c01Shapes(3)
	if true {
		shapes3 = c01Shapes(4)
	}
	var j3 []job
	for _, f := range shapes3 {
		for _, dc := range []int{adoc.D0, adoc.D1} {
			j3 = append(j3, job{f, dc})
		}
	}
	xe.runGrid(len(j3), func(i int) *adoc.Doc { return adoc.Instantiate(j3[i].f, j3[i].deco) }, ns, nil)

	c.Sample(map[string]string{"expr": "number($s)", "s": " -1.5\t"})
	c.Sample(map[string]string{"expr": "string($n)", "n": "1e21"})
	c.Sample(map[string]string{"expr": "substring('abcdef',2,$x)", "x": "node-set [/0/2 /0/1]"})
	c.Sample(map[string]string{"expr": "string(preceding::node())", "doc": adoc.Instantiate(j3[len(j3)/2].f, adoc.D1).String(), "context": "every node"})
	c.Rule = fmt.Sprintf("(a) number($s) for ALL strings of length <=%d over the 14-symbol alphabet {SP,TAB,LF,-,+,.,0,1,e,E,x,_,U+00A0,U+0663} (%d strings) plus %d words (Infinity, 0x10, 1e3, 30-digit and 330-digit numerals ...), also through element text for length <=3; (b) string($n) for %d boundary doubles judged by shape + round-trip, and canonical spellings where they flow on; (c,f) %d conversion contexts (every builtin parameter position and operator operand) x %d typed values (booleans, numbers incl. NaN/-0/Inf, strings, node-sets incl. empty and reverse-ordered); (d) string-value of EVERY node of every forest with <=%d nodes x 4 decorations through string(.), GetCursorString and NodeSet.String(); (e) node-set conversions over forward and reverse axes from every context node. non-trivial = distinct (expression, value) with a non-NaN / non-empty result", maxLen, len(strs), len(c04Words), len(c04Numbers), len(conv), len(vals), n)
	c.Assume("reference conversions in refxp/value.go; number->string accepted in any spelling that satisfies the statement")
}

func init() {
	Registry["C04"] = Prop{"exploration", C04}
	replayers["C04"] = func(raw json.RawMessage) string {
		var probe struct {
			Kind string `json:"kind"`
		}
		json.Unmarshal(raw, &probe)
		switch probe.Kind {
		case "C04", "C04/numstr":
			var vc vcase
			json.Unmarshal(raw, &vc)
			if probe.Kind == "C04/numstr" {
				return replayV(vc, false, c04NumStrJudge)
			}
			return replayV(vc, false, nil)
		case "C04/strval", "C04/nodeset":
			var x XCase
			json.Unmarshal(raw, &x)
			return replayX(x, false)
		}
		return "replay of this C04 sub-check is not automated; see the summary"
	}
}
