package props

import (
	"encoding/json"
	"fmt"
	"sort"
	"strings"

	"github.com/ChrisTrenkamp/xsel/store"

	"xv/adoc"
	"xv/impl"
	"xv/refxp"
	"xv/run"
)

// ---- C18: sub-queries from any node compose like steps inside one query ------

func c18Relative(quick bool) []string {
	out := c01SingleSteps()
	out = append(out, "position()", "last()", ".", "position() = 1 and last() = 1", "self::node()[position()=last()]", "count(.)", "string(.)", "name()", "local-name(.)",
		"..", "../..", "../*", "../@*", "../following-sibling::*", "ancestor::*[1]", "ancestor::node()[last()]", "preceding::*[1]", "following::node()[1]",
		"../preceding-sibling::node()", "ancestor-or-self::*/@*", "../namespace::*", "/", "/*", "//a", ".//b", "*[1]", "*[last()]", "node()[2]", "@*[1]", "parent::*/child::*[2]",
		// absolute paths INSIDE an expression that does not itself start at the root
		"*[//a]", "count(//a)", "(//a)[1]", ". | /*", "string(/*)", "self::node()[/*/a]", "count(//*) - count(.//*)", "*[count(//*) > 2]", "name(/*)", "//a = .", "@*[//b]", "(/)", "count(/)", " /*", "(//b | .)[1]", "-count(//a)", "parent::*[1] | //b", "boolean(/*/*)")
	if !quick {
		out = append(out, c01TwoSteps(false)...)
	}
	return out
}

var c18Prefixes = []string{
	"/", "/*", "//a", "//*", "//b", "//node()", "//@*", "//*/namespace::*", "//text()", "//comment()", "//a/..", "//*/*", "/*/*", "//a/b", "//*[1]", "//*[last()]",
	"//a/following-sibling::*", "//*/preceding::*", "//*/ancestor::*", "//@x", "//processing-instruction()", "//a | //b", "//*[@x]", "//*[not(*)]", "/descendant::node()[2]",
	"//a/ancestor-or-self::*", "//*/@*/..", "(//*)[2]", "//b/preceding-sibling::node()", "//a//*",
}

var c18Suffixes = []string{
	"*", "a", "node()", "@*", "@x", "..", ".", "text()", "namespace::*", "ancestor::*", "ancestor-or-self::node()", "following-sibling::*", "preceding-sibling::node()", "following::*",
	"preceding::node()", "descendant::node()", "descendant-or-self::*", "self::a", "parent::*", "*[1]", "*[last()]", "a[2]", "node()[position()=2]", "ancestor::*[1]", "preceding::*[1]",
	"following-sibling::*[1]", "*/*", "../*", "../@*", ".//a", "*[a]", "@*[1]", "ancestor::node()[last()]", "preceding-sibling::*[last()]", "descendant::*[2]", "self::node()[position()=1]",
	"self::node()[last()=1]", "*[position()=last()]", "following::node()[2]", "../..",
	// predicates whose value is a number without being spelled as one
	"*[$n]", "node()[$n]", "*[$n][1]", "*[count(../*) - 1]", "*[string-length(name())]", "*[number(@x)]", "preceding-sibling::*[$n]", "*[count(*) + 1]", "ancestor::*[$one]", "*[$one + 1]",
	// absolute paths inside the predicate of a relative step
	"*[//a]", "self::node()[//b]", "node()[/*/a]", "*[count(//*) > 2]", "@*[//b]", "parent::*[//a/b]",
}

// c18Env: the C01 bindings plus two numeric variables for the predicates above.
var c18Env = EnvSpec{NS: c01Env.NS, Vars: []VarSpec{numVar("n", 2), numVar("one", 1)}}

var c18Funcs = []string{"name", "local-name", "namespace-uri", "string", "number", "string-length", "normalize-space"}

type c18Case struct {
	Kind   string       `json:"kind"`
	Doc    string       `json:"doc"`
	Events []impl.Event `json:"events"`
	P      string       `json:"prefix"`
	R      string       `json:"suffix,omitempty"`
	F      string       `json:"function,omitempty"`
	Detail string       `json:"detail,omitempty"`
}

func idsOf(o Outcome) []int { return sortedCopy(o.Nodes) }

// c18Compose checks, on the implementation alone, that P/R from the root is
// the identity-union of R evaluated from every node P selects, and that
// P/f() equals f(P).
func c18Compose(d *adoc.Doc, env EnvSpec, P, R string, cache *exprCache) (string, int) {
	b, err := impl.Bind(d)
	if err != nil {
		return "cannot bind: " + err.Error(), 0
	}
	settings := env.ImplSettings(b)
	evals := 0
	gp, bo := cache.get(P)
	if gp == nil {
		return "prefix does not compile: " + bo.String(), 0
	}
	po := ExecImpl(b, b.Root, gp, settings)
	evals++
	if po.Type != "node-set" || po.Err {
		return "prefix is not a node-set: " + po.String(), evals
	}
	whole := pfx(P) + "/" + R
	if P == "/" {
		whole = "/" + R
	}
	gw, bo := cache.get(whole)
	if gw == nil {
		return "composed path does not compile: " + bo.String(), evals
	}
	gr, bo := cache.get(R)
	if gr == nil {
		return "suffix does not compile: " + bo.String(), evals
	}
	wo := ExecImpl(b, b.Root, gw, settings)
	evals++
	union := map[int]bool{}
	for _, id := range po.Nodes {
		var cur store.Cursor = b.ToCur[b.Doc.Nodes[id]]
		ro := ExecImpl(b, cur, gr, settings)
		evals++
		if ro.Err || ro.Type != "node-set" || ro.Foreign > 0 || ro.Panic != "" {
			return fmt.Sprintf("Exec(%s, %s) = %s", b.Doc.Nodes[id].Describe(), R, ro), evals
		}
		for _, x := range ro.Nodes {
			union[x] = true
		}
	}
	var want []int
	for x := range union {
		want = append(want, x)
	}
	sort.Ints(want)
	if wo.Err || wo.Type != "node-set" || wo.Foreign > 0 || fmt.Sprint(idsOf(wo)) != fmt.Sprint(want) {
		return fmt.Sprintf("Exec(root, %s) = %s but the union of Exec(n, %s) over the %d nodes of %s is %v", whole, wo, R, len(po.Nodes), P, want), evals
	}
	return "", evals
}

// pfx parenthesises a prefix that is not a PathExpr (a union).
func pfx(P string) string {
	if strings.Contains(P, " | ") {
		return "(" + P + ")"
	}
	return P
}

func c18FuncStep(d *adoc.Doc, env EnvSpec, P, f string, cache *exprCache) (string, int) {
	b, err := impl.Bind(d)
	if err != nil {
		return "cannot bind: " + err.Error(), 0
	}
	settings := env.ImplSettings(b)
	e1, e2 := pfx(P)+"/"+f+"()", f+"("+P+")"
	g1, bo := cache.get(e1)
	if g1 == nil {
		return e1 + " does not compile: " + bo.String(), 0
	}
	g2, bo := cache.get(e2)
	if g2 == nil {
		return e2 + " does not compile: " + bo.String(), 0
	}
	o1 := ExecImpl(b, b.Root, g1, settings)
	o2 := ExecImpl(b, b.Root, g2, settings)
	if !SameValue(o1, o2, false) || o1.Err {
		return fmt.Sprintf("%s = %s but %s = %s", e1, o1, e2, o2), 2
	}
	return "", 2
}

func C18(c *run.Check) {
	defer finishTriage()
	n := 3
	if !c.Quick() {
		n = 4
	}
	rel := mustParse(c18Relative(c.Quick()))
	for _, e := range rel {
		if e.Err != nil {
			fmt.Println("harness: reference parser rejects", e.Text, e.Err)
		}
	}
	shapes := c01Shapes(n)
	decos := []int{adoc.D0, adoc.D1, adoc.D2, adoc.D5}
	type job struct {
		f    []*adoc.Tm
		deco int
	}
	var jobs []job
	for _, f := range shapes {
		for _, d := range decos {
			jobs = append(jobs, job{f, d})
		}
	}
	gen := func(i int) *adoc.Doc { return adoc.Instantiate(jobs[i].f, jobs[i].deco) }
	c.Rule = fmt.Sprintf("forests with <=%d nodes x D0-D2, D5: (1) %d relative expressions (all single steps, position()/last(), reverse axes leaving the subtree) executed with EVERY node of every kind as starting cursor and compared with the reference at context (n,1,1); (2) for %d prefixes P x %d suffixes R: Exec(root,'P/R') against the identity-union of Exec(n,R) over n in Exec(root,P) - implementation against itself, also on every ordered forest of up to 5 (thorough: 6) elements; (3) P/f() against f(P) for %d context-dependent builtins. non-trivial = distinct (expression, context kind, non-empty result) resp. distinct (P,R) with non-empty result", n, len(rel), len(c18Prefixes), len(c18Suffixes), len(c18Funcs))
	r := newXRunner(c, "C18", c01Env)
	r.runGrid(len(jobs), gen, rel, nil)

	// (2)+(3): composition, implementation against itself
	type pj struct{ d, p int }
	var pjobs []pj
	for d := range jobs {
		for p := range c18Prefixes {
			pjobs = append(pjobs, pj{d, p})
		}
	}
	caches := make([]*exprCache, run.Workers())
	for i := range caches {
		caches[i] = newExprCache()
	}
	run.ParallelW(len(pjobs), func(w, i int) {
		if (!triage && c.Violations() > 0) || c.TimeUp() {
			return
		}
		j := pjobs[i]
		d := gen(j.d)
		P := c18Prefixes[j.p]
		cache := caches[w]
		if len(cache.m) > 3000 {
			caches[w] = newExprCache()
			cache = caches[w]
		}
		for _, R := range c18Suffixes {
			msg, ev := c18Compose(d, c18Env, P, R, cache)
			c.Evaluations.Add(int64(ev))
			if msg != "" {
				cs := c18Case{Kind: "compose", Doc: d.String(), Events: impl.Events(d), P: P, R: R, Detail: msg}
				if triage {
					tri.add("compose "+P+" / "+R, d.String()+": "+msg)
				} else {
					c.Violation(cs, fmt.Sprintf("[compose] doc=%s %s", d.String(), msg))
				}
				return
			}
			if ev > 2 {
				c.Distinct("compose|" + P + "|" + R)
			}
		}
		for _, f := range c18Funcs {
			msg, ev := c18FuncStep(d, c01Env, P, f, cache)
			c.Evaluations.Add(int64(ev))
			if msg != "" {
				cs := c18Case{Kind: "funcstep", Doc: d.String(), Events: impl.Events(d), P: P, F: f, Detail: msg}
				if triage {
					tri.add("funcstep "+P+" / "+f, d.String()+": "+msg)
				} else {
					c.Violation(cs, fmt.Sprintf("[funcstep] doc=%s %s", d.String(), msg))
				}
				return
			}
		}
	})
	// deeper trees for the composition: every ordered forest of n+1..5 (thorough: 6)
	// elements, so that the selections of different context nodes overlap and
	// interleave (a parent reached again after a deeper node, subtrees beside
	// ancestors)
	{
		dn := 5
		if !c.Quick() {
			dn = 6
		}
		var deep [][]*adoc.Tm
		for _, f := range adoc.Forests(dn, adoc.ShapeCfg{Names: []string{"a"}}) {
			if treeSize(f) > n {
				deep = append(deep, f)
			}
		}
		type dj struct{ d, p int }
		var djobs []dj
		for d := range deep {
			for p := range c18Prefixes {
				djobs = append(djobs, dj{d, p})
			}
		}
		run.ParallelW(len(djobs), func(w, i int) {
			if (!triage && c.Violations() > 0) || c.TimeUp() {
				return
			}
			d := adoc.Instantiate(deep[djobs[i].d], adoc.D0)
			P := c18Prefixes[djobs[i].p]
			cache := caches[w]
			if len(cache.m) > 3000 {
				caches[w] = newExprCache()
				cache = caches[w]
			}
			for _, R := range c18Suffixes {
				msg, ev := c18Compose(d, c18Env, P, R, cache)
				c.Evaluations.Add(int64(ev))
				if msg != "" {
					c.Violation(c18Case{Kind: "compose", Doc: d.String(), Events: impl.Events(d), P: P, R: R, Detail: msg}, fmt.Sprintf("[compose] doc=%s %s", d.String(), msg))
					return
				}
			}
		})
		c.Set("deep_element_forests_for_composition", len(deep))
	}
	for i := 11; i < len(jobs); i += len(jobs)/5 + 1 {
		c.Sample(map[string]string{"doc": gen(i).String(), "start": "every node", "relative": rel[(i*17)%len(rel)].Text, "prefix": c18Prefixes[i%len(c18Prefixes)], "suffix": c18Suffixes[i%len(c18Suffixes)]})
	}
	c.Set("documents", len(jobs))
	c.Assume("reference evaluator refxp for (1); (2) and (3) compare the implementation with itself")
}

func init() {
	Registry["C18"] = Prop{"exploration", C18}
	replayers["C18"] = func(raw json.RawMessage) string {
		var probe struct {
			Kind string `json:"kind"`
		}
		json.Unmarshal(raw, &probe)
		switch probe.Kind {
		case "compose", "funcstep":
			var cs c18Case
			json.Unmarshal(raw, &cs)
			d := impl.FromEvents(cs.Events)
			var msg string
			if probe.Kind == "compose" {
				msg, _ = c18Compose(d, c18Env, cs.P, cs.R, newExprCache())
			} else {
				msg, _ = c18FuncStep(d, c01Env, cs.P, cs.F, newExprCache())
			}
			return msg
		}
		var x XCase
		if err := json.Unmarshal(raw, &x); err != nil {
			return err.Error()
		}
		return replayX(x, false)
	}
	_ = refxp.Axes
}
