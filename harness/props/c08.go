package props

import (
	"encoding/json"
	"fmt"
	"os"
	"strings"

	"xv/adoc"
	"xv/impl"
	"xv/refxp"
	"xv/run"
)

// ---- C08: every XPath 1.0 expression parses to its grammar tree; others error ----

var c08Tokens = []string{"/", "//", "|", "+", "-", "*", "=", "<", "[", "]", "(", ")", ",", "@", "::", ".", "..", "a", "child", "1", "'s'", "$v", "not(", "or", "div", "text()"}

// c08Doc is the document token strings and generated ASTs are evaluated on.
func c08Doc(k int) *adoc.Doc {
	d := adoc.NewDoc()
	switch k {
	case 0:
		a := adoc.E("a", adoc.T("1"), adoc.E("a", adoc.T("2")), adoc.E("b", adoc.T("3")), adoc.E("child", adoc.T("4")))
		a.Add(adoc.A("a", "5"))
		a.Add(adoc.A("x", "6"))
		d.Root.Add(a)
	case 1:
		r := adoc.E("r", adoc.E("a", adoc.T("2")), adoc.E("b", adoc.T("3")), adoc.E("c", adoc.T("5")), adoc.E("a", adoc.T("7"), adoc.E("b", adoc.T("11"))))
		r.Add(adoc.A("x", "13"))
		d.Root.Add(r)
	default:
		r := adoc.E("r", adoc.E("div", adoc.T("2")), adoc.E("mod", adoc.T("3")), adoc.E("and", adoc.T("5")), adoc.E("or", adoc.T("7")), adoc.E("a-b", adoc.T("11")), adoc.E("a.b", adoc.T("13")),
			adoc.E("a1", adoc.T("17")), adoc.E("child", adoc.T("19")), adoc.E("text", adoc.T("23")), adoc.E("node", adoc.T("29")), adoc.E("comment", adoc.T("31")), adoc.E("self", adoc.T("37")),
			adoc.E("_x", adoc.T("41")), adoc.E("#x", adoc.T("43")), adoc.E("é", adoc.T("47")), adoc.E("a", adoc.T("53")), adoc.E("b", adoc.T("59")), adoc.E("processing-instruction", adoc.T("61")), adoc.E("x#", adoc.T("67")),
			adoc.ENS(adoc.URI_U, "", "text", adoc.T("71")), adoc.ENS(adoc.URI_U, "", "self", adoc.T("73")), adoc.ENS(adoc.URI_U, "", "child", adoc.T("79")), adoc.ENS(adoc.URI_U, "", "a", adoc.T("83")), adoc.ENS(adoc.URI_U, "", "div", adoc.T("89")))
		d.Root.Add(r)
	}
	return d.Finish()
}

var c08Env = EnvSpec{NS: map[string]string{"p": adoc.URI_U, "div": adoc.URI_U, "self": adoc.URI_U, "child": adoc.URI_U, "text": adoc.URI_U, "node": adoc.URI_V}, Vars: []VarSpec{numVar("v", 3), numVar("div", 4), {Local: "w", Type: "node-set", Nodes: []string{"/0"}}, {Space: adoc.URI_U, Local: "v", Type: "number", Num: "5"}}, Funcs: []string{"rec-f", "rec-pf"}}

// c08Quirks returns the parser options reproducing the open acceptance findings.
func c08Quirks() (refxp.Options, map[string]refxp.Options) {
	all := refxp.Options{}
	single := map[string]refxp.Options{}
	if run.Open("C08-operator-names-reserved") {
		all.OpNamesReserved = true
		single["C08-operator-names-reserved"] = refxp.Options{OpNamesReserved: true}
	}
	if run.Open("C08-trailing-dot-numeral") {
		all.NoTrailingDotNumber = true
		single["C08-trailing-dot-numeral"] = refxp.Options{NoTrailingDotNumber: true}
	}
	if run.Open("C08-underscore-name-start") {
		all.NoUnderscoreStart = true
		single["C08-underscore-name-start"] = refxp.Options{NoUnderscoreStart: true}
	}
	if run.Open("C08-whitespace-in-qname") {
		all.AllowWSInQName = true
		single["C08-whitespace-in-qname"] = refxp.Options{AllowWSInQName: true}
	}
	if run.Open("C08-unicode-space-is-whitespace") {
		all.UnicodeSpaceIsWS = true
		single["C08-unicode-space-is-whitespace"] = refxp.Options{UnicodeSpaceIsWS: true}
	}
	if run.Open("C08-backslash-escape-in-literal") {
		all.LiteralBackslashEscapes = true
		single["C08-backslash-escape-in-literal"] = refxp.Options{LiteralBackslashEscapes: true}
	}
	return all, single
}

type c08Case struct {
	Kind string `json:"kind"`
	Expr string `json:"expr"`
	Doc  int    `json:"doc"`
	Want string `json:"want"`
	Got  string `json:"got"`
	AST  string `json:"ast,omitempty"`
}

// c08Eval evaluates expr text on the implementation (root context of doc k).
func c08Impl(b *impl.Binding, text string, cache *exprCache) Outcome {
	var g, bo = BuildImpl(text)
	if cache != nil {
		g, bo = cache.get(text)
	}
	if g == nil {
		return bo
	}
	return ExecImpl(b, b.Root, g, c08Env.ImplSettings(b))
}

func c08Ref(b *impl.Binding, text string, opt refxp.Options) Outcome {
	ast, err := refxp.Parse(text, opt)
	if err != nil {
		return Outcome{Err: true, ErrText: "syntax: " + err.Error()}
	}
	return RefOutcome(refxp.Eval(ast, b.Doc.Root, c08Env.RefEnv(b.Doc)))
}

// c08Judge compares and attributes one string. ast != nil means the string
// was rendered from that AST (the generating tree is the specification).
func c08Judge(c *run.Check, b *impl.Binding, dk int, text string, ast refxp.Expr, kind string, quirkAll refxp.Options, quirks map[string]refxp.Options) bool {
	got := c08Impl(b, text, nil)
	var want Outcome
	if ast != nil {
		want = RefOutcome(refxp.Eval(ast, b.Doc.Root, c08Env.RefEnv(b.Doc)))
	} else {
		want = c08Ref(b, text, refxp.Options{})
	}
	if SameValue(got, want, false) && !IsPanicErr(got) {
		return true
	}
	if got.Panic == "" && !IsPanicErr(got) && !got.Nil {
		for id, q := range quirks {
			if SameValue(got, c08Ref(b, text, q), false) {
				c.Known(id, fmt.Sprintf("%q -> %s (XPath: %s)", text, got, want))
				return true
			}
		}
		if len(quirks) > 1 && SameValue(got, c08Ref(b, text, quirkAll), false) {
			for id := range quirks {
				c.Known(id, fmt.Sprintf("%q -> %s (XPath: %s) [in combination]", text, got, want))
			}
			return true
		}
	}
	cs := c08Case{Kind: kind, Expr: text, Doc: dk, Want: want.String(), Got: got.String()}
	if ast != nil {
		cs.AST = refxp.Render(ast, refxp.RenderOpt{FullParens: true, WS: 1})
	}
	summary := fmt.Sprintf("[%s] %q on doc %d: want %s got %s", kind, text, dk, want, got)
	if triage {
		cls := "value"
		switch {
		case want.Err && !got.Err:
			cls = "accepted non-expression / type error"
		case !want.Err && got.Err:
			cls = "rejected expression: " + firstWords(got.ErrText, 5)
		}
		tri.add(kind+" "+cls, summary)
	} else {
		c.Violation(cs, summary)
	}
	return false
}

func firstWords(s string, n int) string {
	f := strings.Fields(s)
	if len(f) > n {
		f = f[:n]
	}
	return strings.Join(f, " ")
}

func C08(c *run.Check) {
	defer finishTriage()
	quirkAll, quirks := c08Quirks()
	// ---- reject/accept side: all token strings ----
	maxLen := 4
	if !c.Quick() {
		maxLen = 5
	}
	if v := os.Getenv("C08_LEN"); v != "" {
		fmt.Sscan(v, &maxLen)
	}
	nt := len(c08Tokens)
	total := 0
	pow := 1
	var offs []int
	for l := 1; l <= maxLen; l++ {
		pow *= nt
		offs = append(offs, total)
		total += pow
	}
	bindings := make([]*impl.Binding, run.Workers())
	bind := func(w int) *impl.Binding {
		if bindings[w] == nil {
			b, err := impl.Bind(c08Doc(0))
			if err != nil {
				panic(err)
			}
			bindings[w] = b
		}
		return bindings[w]
	}
	var nExpr, nNon int64
	const chunk = 4096
	nchunks := (total + chunk - 1) / chunk
	completedLen := maxLen
	run.ParallelW(nchunks, func(w, ci int) {
		if (!triage && c.Violations() > 0) || c.TimeUp() {
			return
		}
		b := bind(w)
		var le, ln int64
		for idx := ci * chunk; idx < min((ci+1)*chunk, total); idx++ {
			// decode idx -> token string
			l := 0
			for l+1 < len(offs) && idx >= offs[l+1] {
				l++
			}
			k := idx - offs[l]
			toks := make([]string, l+1)
			for j := l; j >= 0; j-- {
				toks[j] = c08Tokens[k%nt]
				k /= nt
			}
			for _, sep := range []string{"", " "} {
				if sep == " " && l == 0 {
					continue
				}
				text := strings.Join(toks, sep)
				c.Evaluations.Add(1)
				_, perr := refxp.Parse(text, refxp.Options{})
				if perr == nil {
					le++
				} else {
					ln++
				}
				if c08Judge(c, b, 0, text, nil, "tokens", quirkAll, quirks) && perr == nil && idx%17 == 0 {
					c.Distinct("tok|" + text)
				}
			}
		}
		c.Add("token_strings_that_are_expressions", le)
		c.Add("token_strings_that_are_not", ln)
		_ = nExpr
		_ = nNon
	})
	if c.TimeUp() {
		completedLen = maxLen - 1
	}
	// quick tier: length 5 as well, over a 12-token sub-alphabet (both defects the
	// full length-5 enumeration of the thorough tier found live here)
	if c.Quick() && maxLen < 5 {
		sub := []string{"/", "1", ".", "not(", "'s'", ")", "[", "]", "a", "*", "$v", "("}
		ns := len(sub)
		tot5 := ns * ns * ns * ns * ns
		nch := (tot5 + chunk - 1) / chunk
		run.ParallelW(nch, func(w, ci int) {
			if (!triage && c.Violations() > 0) || c.TimeUp() {
				return
			}
			b := bind(w)
			for idx := ci * chunk; idx < min((ci+1)*chunk, tot5); idx++ {
				k := idx
				toks := make([]string, 5)
				for j := 4; j >= 0; j-- {
					toks[j] = sub[k%ns]
					k /= ns
				}
				for _, sep := range []string{"", " "} {
					c.Evaluations.Add(1)
					c08Judge(c, b, 0, strings.Join(toks, sep), nil, "tokens", quirkAll, quirks)
				}
			}
		})
		c.Set("length_5_token_strings_over_12_token_subalphabet", 2*tot5)
	}
	// ---- accept side: generated ASTs in five renderings on three documents ----
	asts := c08ASTs(c.Quick())
	rends := []refxp.RenderOpt{{}, {WS: 1}, {WS: 2}, {FullParens: true}, {Unabbrev: true}, {FullParens: true, WS: 1, Unabbrev: true}}
	docs3 := make([][]*impl.Binding, run.Workers())
	run.ParallelW(len(asts), func(w, i int) {
		if (!triage && c.Violations() > 0) || c.TimeUp() {
			return
		}
		if docs3[w] == nil {
			for k := 0; k < 3; k++ {
				b, err := impl.Bind(c08Doc(k))
				if err != nil {
					panic(err)
				}
				docs3[w] = append(docs3[w], b)
			}
		}
		seen := map[string]bool{}
		for _, ro := range rends {
			text := refxp.Render(asts[i], ro)
			if seen[text] {
				continue
			}
			seen[text] = true
			for k, b := range docs3[w] {
				c.Evaluations.Add(1)
				if c08Judge(c, b, k, text, asts[i], "ast", quirkAll, quirks) {
					c.Distinct("ast|" + text)
				}
			}
		}
	})
	// hand-listed lexical edge cases (whitespace regimes, token boundaries)
	for _, text := range c08Lexical {
		for k := 0; k < 3; k++ {
			b, _ := impl.Bind(c08Doc(k))
			c.Evaluations.Add(1)
			if c08Judge(c, b, k, text, nil, "lexical", quirkAll, quirks) {
				c.Distinct("lex|" + text)
			}
		}
	}
	c.Sample(map[string]string{"tokens": "child :: a [ 1 ]", "kind": "token string"})
	c.Sample(map[string]string{"ast": refxp.Render(asts[len(asts)/2], refxp.RenderOpt{FullParens: true, WS: 1}), "rendered": refxp.Render(asts[len(asts)/2], refxp.RenderOpt{})})
	c.Sample(map[string]string{"ast": refxp.Render(asts[len(asts)/3], refxp.RenderOpt{FullParens: true, WS: 1}), "rendered": refxp.Render(asts[len(asts)/3], refxp.RenderOpt{WS: 2})})
	c.Set("token_alphabet", strings.Join(c08Tokens, " "))
	c.Set("token_string_max_len_completed", completedLen)
	c.Set("asts", len(asts))
	c.Rule = fmt.Sprintf("(reject+accept) ALL token strings of length <=%d over a %d-token alphabet, joined without and with spaces (quick tier: additionally all strings of length 5 over the 12-token sub-alphabet / 1 . not( 's' ) [ ] a * $v ( ): the reference recogniser (recursive-descent XPath 1.0 + documented extensions) decides expression vs. non-expression; BuildExpr+Exec must error on every non-expression (and on XPath type errors) and must return the reference value on every expression; (accept) %d generated ASTs - every triple of binary operators in both association shapes, unary minus and union against every operator, '*' in every position, names spelling operators/axes/node types, numeral and literal forms, nested predicates/paths/calls - rendered 6 ways (minimal/full parentheses x 3 whitespace regimes x abbreviated/expanded) on 3 documents, compared with the reference evaluation of the GENERATING tree; non-trivial = distinct accepted string with agreeing value", maxLen, nt, len(asts))
	c.Assume("reference recogniser refxp.Parse (round-trip validated against the renderer in the self-test)")
}

func init() {
	Registry["C08"] = Prop{"exploration", C08}
	replayers["C08"] = func(raw json.RawMessage) string {
		var cs c08Case
		json.Unmarshal(raw, &cs)
		b, err := impl.Bind(c08Doc(cs.Doc))
		if err != nil {
			return err.Error()
		}
		got := c08Impl(b, cs.Expr, nil)
		want := c08Ref(b, cs.Expr, refxp.Options{})
		fmt.Printf("expr: %q\nwant: %s\ngot:  %s\n", cs.Expr, want, got)
		if SameValue(got, want, false) && !IsPanicErr(got) {
			return ""
		}
		return fmt.Sprintf("expected %s, got %s", want, got)
	}
}
