package props

import (
	"fmt"
	"os"
	"os/exec"
	"strconv"
	"strings"
	"time"

	"github.com/ChrisTrenkamp/xsel"

	"xv/impl"
	"xv/run"
)

// Build-history exploration for C13 ("BuildExpr of the same string always
// yields an equivalent query ... regardless of which other queries ran
// before"). State that survives between builds can only live in the process
// (package-level caches), so every history runs in a FRESH process: for every
// ordered pair (i, j) of the expression texts below, build and execute i, then
// build and execute j; j's outcome must equal its outcome in a process where
// nothing ran before. The texts are near-duplicates of one another - they
// differ only in ways a lossy cache key could conflate (white space inside and
// outside literals, quote style, letter case, numeral spelling, abbreviation).
var c13NearDup = []string{
	"string-length('x y')", "string-length('x  y')", "string-length('x\ty')", "string-length( 'x y' )", "string-length(\"x y\")", "string-length('X Y')", "string-length('x y ')", "string-length(' x y')",
	"count(//b)", "count(//B)", "count( // b )", "count(//b )", "count(//c)", "count(/descendant-or-self::node()/child::b)",
	"1 + 01", "1 + 1", "1+1", "1 + 1.0", "1 + 10",
	"concat('a','b')", "concat('a', 'b')", "concat('a','b ')", "concat('A','b')", "concat(\"a\",'b')", "concat('a', 'b', '')",
	"translate('a\tb',' ','_')", "translate('a b',' ','_')", "//b[1]", "//b[ 1 ]", "//b[01]", "//b[1.0]", "(//b)[1]",
}

type c13Call struct {
	Text string `json:"text"`
	Doc  int    `json:"doc"`
	Ctx  string `json:"ctx"`
}

func (c c13Call) String() string {
	return fmt.Sprintf("%q on document %d from %s", c.Text, c.Doc, c.Ctx)
}

// c13Calls is the menu of the process-fresh histories: the near-duplicate texts
// on one document, and a few texts from two context nodes of two documents (a
// cache keyed by something less than the identity of the document or of the
// context node shows as a call whose outcome depends on the call before it).
func c13Calls() []c13Call {
	var out []c13Call
	for _, t := range c13NearDup {
		out = append(out, c13Call{t, 0, "/"})
	}
	for _, t := range []string{"/*", "//b", "string(/*/*[1])", "count(//node())", "name(..)", ".", "/*/@x", "count(ancestor::node())"} {
		for d := 0; d < 2; d++ {
			for _, ctx := range []string{"/", "/0/0", "/0/2"} {
				out = append(out, c13Call{t, d, ctx})
			}
		}
	}
	// values of nodes (string-values, comparisons of node-sets, sums) on both
	// documents: a cache of derived values keyed by something that is unique
	// only within one document (a position) shows across documents
	for _, t := range []string{"//b = //c", "//b != //c", "/*/*[1] = /*/*[2]", "count(//*[. = //c])", "sum(//c)", "string(//b)", "count(//*[. = ''])", "//@* = //c", "string-length(/)", "count(//*[b = c])"} {
		for d := 0; d < 2; d++ {
			out = append(out, c13Call{t, d, "/"})
		}
	}
	// calls that fail (every kind of failure the evaluator knows): what a failed
	// call leaves behind must not change later calls
	for _, t := range []string{"$nope", "nofn()", "1/b", "//b[$nope]", "//b[nofn(.)]", "//b[count(1)]", "q:b", "//b[1 div $nope]"} {
		out = append(out, c13Call{t, 0, "/"})
	}
	return out
}

func init() {
	// xv c13-build-history i j ...: perform the calls in this order, print the last outcome
	Sub["c13-build-history"] = func(args []string) int {
		calls := c13Calls()
		var bs [2]*impl.Binding
		for d := range bs {
			b, err := impl.Bind(c13Doc(d))
			if err != nil {
				fmt.Println("HARNESS", err)
				return 2
			}
			bs[d] = b
		}
		out := ""
		for _, a := range args {
			i, _ := strconv.Atoi(a)
			cl := calls[i]
			func() {
				defer func() {
					if r := recover(); r != nil {
						out = fmt.Sprint("PANIC ", r)
					}
				}()
				g, err := xsel.BuildExpr(cl.Text)
				if err != nil {
					out = "build error"
					return
				}
				b := bs[cl.Doc]
				o := ExecImpl(b, b.ToCur[b.Doc.Resolve(cl.Ctx)], &g, nil)
				out = fmt.Sprintf("doc%d %s", cl.Doc, o.String())
			}()
		}
		fmt.Println("OUT " + out)
		return 0
	}
}

func c13RunHistory(idx ...int) string {
	var a []string
	for _, i := range idx {
		a = append(a, strconv.Itoa(i))
	}
	s := ""
	for attempt := 0; attempt < 4; attempt++ {
		o, err := exec.Command(os.Args[0], append([]string{"c13-build-history"}, a...)...).CombinedOutput()
		s = strings.TrimSpace(string(o))
		if err == nil && strings.HasPrefix(s, "OUT ") {
			return s
		}
		if strings.Contains(s, "OUT ") || strings.Contains(s, "goroutine ") {
			break // the child ran and died: that is a result, not a spawn problem
		}
		time.Sleep(time.Duration(attempt+1) * 200 * time.Millisecond) // could not be started (resources): try again
	}
	return "PROCESS FAILED: " + s
}

func c13BuildHistory(c *run.Check) {
	calls := c13Calls()
	n := len(calls)
	solo := make([]string, n)
	run.ParallelW(n, func(_, i int) { solo[i] = c13RunHistory(i) })
	distinct := map[string]bool{}
	for _, s := range solo {
		distinct[s] = true
	}
	run.ParallelW(n*n, func(_, k int) {
		i, j := k/n, k%n
		if i == j || c.Violations() > 0 || c.TimeUp() {
			return
		}
		c.Transitions.Add(1)
		c.Traces.Add(1)
		c.Evaluations.Add(2)
		got := c13RunHistory(i, j)
		if (strings.HasPrefix(got, "PROCESS FAILED: ") && !strings.Contains(got, "goroutine ")) || (strings.HasPrefix(solo[j], "PROCESS FAILED: ") && !strings.Contains(solo[j], "goroutine ")) {
			// the helper process could not be run at all (machine resources): not a
			// result about the library; the history stays unexplored
			c.Add("process_histories_not_run", 1)
			c.Exhaustive = false
			return
		}
		if got != solo[j] {
			c.Violation(map[string]interface{}{"kind": "build-history", "first": calls[i], "then": calls[j], "got": got, "alone": solo[j]},
				fmt.Sprintf("process history: BuildExpr+Exec of %s returns %s in a fresh process but %s after %s was built and executed in the same process", calls[j], solo[j], got, calls[i]))
		}
	})
	// long histories of one repeated call followed by a probe: state that builds up
	// a little with every call (a counter that is not restored on an error path, a
	// table that only grows) shows only after hundreds of repetitions
	if c.Violations() == 0 {
		const reps = 500
		probes := []int{}
		for j, cl := range calls {
			if cl.Doc == 0 && cl.Ctx == "/" && (cl.Text == "count(//b)" || cl.Text == "//b[1]" || cl.Text == "concat('a','b')" || cl.Text == "sum(//c)") {
				probes = append(probes, j)
			}
		}
		type rj struct{ i, j int }
		var jobs []rj
		for i, cl := range calls {
			if cl.Doc != 0 || cl.Ctx != "/" {
				continue
			}
			for _, j := range probes {
				jobs = append(jobs, rj{i, j})
			}
		}
		run.ParallelW(len(jobs), func(_, k int) {
			if c.Violations() > 0 || c.TimeUp() {
				return
			}
			i, j := jobs[k].i, jobs[k].j
			hist := make([]int, 0, reps+1)
			for r := 0; r < reps; r++ {
				hist = append(hist, i)
			}
			hist = append(hist, j)
			c.Transitions.Add(int64(reps))
			c.Traces.Add(1)
			c.Evaluations.Add(int64(reps + 1))
			got := c13RunHistory(hist...)
			if strings.HasPrefix(got, "PROCESS FAILED: ") && !strings.Contains(got, "goroutine ") {
				c.Add("process_histories_not_run", 1)
				c.Exhaustive = false
				return
			}
			if got != solo[j] {
				c.Violation(map[string]interface{}{"kind": "build-history", "first": calls[i], "repeated": reps, "then": calls[j], "got": got, "alone": solo[j]},
					fmt.Sprintf("process history: BuildExpr+Exec of %s returns %s in a fresh process but %s after %s was built and executed %d times in the same process", calls[j], solo[j], got, calls[i], reps))
			}
		})
		c.Set("repeated_call_histories_in_fresh_processes", fmt.Sprintf("%d (one call x %d, then a probe)", len(jobs), reps))
	}
	c.Set("two_call_histories_in_fresh_processes", n*(n-1))
	c.Set("two_call_history_distinct_outcomes", len(distinct))
}
