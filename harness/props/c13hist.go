package props

import (
	"fmt"
	"os"
	"os/exec"
	"strconv"
	"strings"
	"sync"

	"github.com/ChrisTrenkamp/xsel"

	"xv/impl"
	"xv/run"
)

// Build-history exploration for C13 ("BuildExpr of the same string always
// yields an equivalent query ... regardless of which other queries ran
// before"). State that survives between builds can only live in the process
// (package-level caches), so every history runs in a FRESH process: for every
// ordered pair (i, j) of the expression texts below, build and execute i, then
// build and execute j; j's outcome must equal its outcome in a process where
// nothing ran before. The texts are near-duplicates of one another - they
// differ only in ways a lossy cache key could conflate (white space inside and
// outside literals, quote style, letter case, numeral spelling, abbreviation).
var c13NearDup = []string{
	"string-length('x y')", "string-length('x  y')", "string-length('x\ty')", "string-length( 'x y' )", "string-length(\"x y\")", "string-length('X Y')", "string-length('x y ')", "string-length(' x y')",
	"count(//b)", "count(//B)", "count( // b )", "count(//b )", "count(//c)", "count(/descendant-or-self::node()/child::b)",
	"1 + 01", "1 + 1", "1+1", "1 + 1.0", "1 + 10",
	"concat('a','b')", "concat('a', 'b')", "concat('a','b ')", "concat('A','b')", "concat(\"a\",'b')", "concat('a', 'b', '')",
	"translate('a\tb',' ','_')", "translate('a b',' ','_')", "//b[1]", "//b[ 1 ]", "//b[01]", "//b[1.0]", "(//b)[1]",
}

func init() {
	// xv c13-build-history i j ...: build+execute the texts in this order, print the last outcome
	Sub["c13-build-history"] = func(args []string) int {
		b, err := impl.Bind(c13Doc(0))
		if err != nil {
			fmt.Println("HARNESS", err)
			return 2
		}
		out := ""
		for _, a := range args {
			i, _ := strconv.Atoi(a)
			func() {
				defer func() {
					if r := recover(); r != nil {
						out = fmt.Sprint("PANIC ", r)
					}
				}()
				g, err := xsel.BuildExpr(c13NearDup[i])
				if err != nil {
					out = "build error"
					return
				}
				out = ExecImpl(b, b.Root, &g, nil).String()
			}()
		}
		fmt.Println("OUT " + out)
		return 0
	}
}

func c13BuildHistory(c *run.Check) {
	n := len(c13NearDup)
	runProc := func(idx ...int) string {
		var a []string
		for _, i := range idx {
			a = append(a, strconv.Itoa(i))
		}
		o, err := exec.Command(os.Args[0], append([]string{"c13-build-history"}, a...)...).CombinedOutput()
		s := strings.TrimSpace(string(o))
		if err != nil || !strings.HasPrefix(s, "OUT ") {
			return "PROCESS FAILED: " + s
		}
		return s
	}
	solo := make([]string, n)
	run.ParallelW(n, func(_, i int) { solo[i] = runProc(i) })
	var mu sync.Mutex
	distinct := map[string]bool{}
	for _, s := range solo {
		distinct[s] = true
	}
	run.ParallelW(n*n, func(_, k int) {
		i, j := k/n, k%n
		if i == j || c.Violations() > 0 || c.TimeUp() {
			return
		}
		c.Transitions.Add(1)
		c.Traces.Add(1)
		c.Evaluations.Add(2)
		if got := runProc(i, j); got != solo[j] {
			c.Violation(map[string]interface{}{"kind": "build-history", "first": c13NearDup[i], "then": c13NearDup[j], "got": got, "alone": solo[j]},
				fmt.Sprintf("build history: BuildExpr+Exec of %q returns %s in a fresh process but %s after %q was built and executed in the same process", c13NearDup[j], solo[j], got, c13NearDup[i]))
		}
		mu.Lock()
		mu.Unlock()
	})
	c.Set("build_histories_in_fresh_processes", n*(n-1))
	c.Set("build_history_distinct_outcomes", len(distinct))
}
