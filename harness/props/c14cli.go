package props

import "xv/run"

func c14CLI(c *run.Check) {}
