package props

import (
	"bytes"
	"context"
	"encoding/json"
	"errors"
	"fmt"
	"os"
	"os/exec"
	"path/filepath"
	"sort"
	"strconv"
	"strings"
	"sync"
	"time"

	"xv/instr"
	"xv/run"
	"xv/sched"
)

// ---- C14 (b): the command line tool under all worker schedules -----------------
//
// The real main() of xsel/xsel.go is run under the cooperative scheduler: its
// source is rewritten on the fly (go statements, channel operations,
// sync.WaitGroup/Mutex and every write to stdout/stderr become scheduling
// points) and built with `go build -overlay`, nothing is committed to /repo.
// One process per execution (the tool keeps its state in package variables);
// the parent enumerates schedule prefixes depth-first with a preemption bound.

type c14cliScenario struct {
	Name  string            `json:"name"`
	Args  []string          `json:"args"` // flags, then -x expr, then inputs (relative to the scenario directory)
	Files map[string]string `json:"files"`
	Stdin string            `json:"stdin,omitempty"`
}

var c14cliFiles = map[string]string{
	"g2.xml":  "<doc><a>alpha</a><a>beta</a><b><a>gamma</a></b></doc>",
	"d.json":  `{"a": [1, 2.5, "x"], "b": {"a": true}}`,
	"p.html":  "<!doctype html><html><body><a href=\"u\">link</a><p>para</p></body></html>",
	"bad.xml": "<r><a></r>",
	"g1.xml":  "<r x=\"1\"><a>one\ntwo</a><a/></r>",
}

var c14cliScenarios = []c14cliScenario{
	{Name: "three files, two workers", Args: []string{"-c", "2", "-a", "-x", "//a", "g2.xml", "d.json", "bad.xml"}},
	{Name: "four files, three workers", Args: []string{"-c", "3", "-x", "//a", "g2.xml", "p.html", "g1.xml", "d.json"}},
	{Name: "stdin among files", Args: []string{"-c", "2", "-t", "xml", "-a", "-x", "//a", "g2.xml", "-", "g1.xml"}, Stdin: "<r><a>from stdin</a></r>"},
	{Name: "xml records, two workers", Args: []string{"-c", "2", "-m", "-x", "//a", "g1.xml", "g2.xml", "bad.xml"}},
	{Name: "more workers than files", Args: []string{"-c", "4", "-n", "-a", "-x", "//a | //b", "g2.xml", "g1.xml"}},
	{Name: "directory walk", Args: []string{"-c", "2", "-r", "-x", "count(//a)", "sub", "g2.xml"}},
	{Name: "blocks larger than an I/O buffer", Args: []string{"-c", "2", "-a", "-x", "//a", "big1.xml", "big2.xml", "g2.xml"}},
}

type vrtReport struct {
	Points []sched.Point `json:"points"`
	Writes []struct {
		Thread    int    `json:"thread"`
		Stream    string `json:"stream"`
		Text      string `json:"text"`
		AfterMain bool   `json:"afterMain"`
	} `json:"writes"`
	Deadlock    bool     `json:"deadlock"`
	Diverged    string   `json:"diverged"`
	Panic       string   `json:"panic"`
	Unsupported []string `json:"unsupported"`
	Truncated   bool     `json:"truncated"`
}

type c14cliReplay struct {
	Kind     string         `json:"kind"`
	Scenario c14cliScenario `json:"scenario"`
	Schedule []int          `json:"schedule"`
	Detail   string         `json:"detail"`
	Stdout   string         `json:"stdout"`
}

// c14cliBuild rewrites and builds the instrumented tool.
func c14cliBuild(dir string) (string, []string, error) {
	harness := filepath.Join(run.VerifDir, "harness")
	repo := "/repo"
	if r := os.Getenv("XV_REPO"); r != "" {
		repo = r // a snapshot of the repository (used for long background runs)
	}
	ov, notes, err := instr.BuildCLIOverlay(repo, harness, dir)
	if err != nil {
		return "", nil, err
	}
	bin := filepath.Join(dir, "xsel-mc")
	cmd := exec.Command("go", "build", "-tags", "verif", "-overlay", ov, "-o", bin, "github.com/ChrisTrenkamp/xsel/xsel")
	cmd.Dir = harness
	if out, err := cmd.CombinedOutput(); err != nil {
		return "", notes, fmt.Errorf("building the instrumented tool: %v\n%s", err, out)
	}
	return bin, notes, nil
}

func c14cliPrepare(base string, sc c14cliScenario, i int) string {
	dir := filepath.Join(base, fmt.Sprint("sc", i))
	os.MkdirAll(filepath.Join(dir, "sub", "deep"), 0o755)
	for n, content := range c14cliFiles {
		os.WriteFile(filepath.Join(dir, n), []byte(content), 0o644)
	}
	for _, n := range []string{"big1.xml", "big2.xml"} {
		var sb strings.Builder
		sb.WriteString("<r>")
		for k := 0; k < 700; k++ {
			fmt.Fprintf(&sb, "<a>%s item %04d</a>", n, k)
		}
		sb.WriteString("</r>")
		os.WriteFile(filepath.Join(dir, n), []byte(sb.String()), 0o644)
	}
	os.WriteFile(filepath.Join(dir, "sub", "g1.xml"), []byte(c14cliFiles["g1.xml"]), 0o644)
	os.WriteFile(filepath.Join(dir, "sub", "deep", "d.json"), []byte(c14cliFiles["d.json"]), 0o644)
	os.WriteFile(filepath.Join(dir, "sub", "deep", "bad.xml"), []byte(c14cliFiles["bad.xml"]), 0o644)
	return dir
}

// c14cliExpected derives the per-file blocks from the library API (the C20 oracle).
func c14cliExpected(dir string, sc c14cliScenario) (blocks []string, diags []string, err error) {
	var f c20Flags
	expr := ""
	var inputs []string
	for i := 0; i < len(sc.Args); i++ {
		switch a := sc.Args[i]; a {
		case "-a":
			f.A = true
		case "-m":
			f.M = true
		case "-n":
			f.N = true
		case "-r":
			f.R = true
		case "-t":
			i++
			f.T = sc.Args[i]
		case "-c":
			i++
		case "-x":
			i++
			expr = sc.Args[i]
		default:
			inputs = append(inputs, a)
		}
	}
	for _, in := range inputs {
		if in == "-" {
			b := c20Expected("stdin."+f.T, "-", []byte(sc.Stdin), f, expr)
			if b.diag {
				diags = append(diags, " -")
			} else {
				blocks = append(blocks, c14cliBlockText(b, f)...)
			}
			continue
		}
		p := filepath.Join(dir, in)
		st, serr := os.Stat(p)
		if serr != nil {
			diags = append(diags, in)
			continue
		}
		var files []string
		if st.IsDir() {
			if !f.R {
				diags = append(diags, in)
				continue
			}
			filepath.WalkDir(p, func(path string, d os.DirEntry, e error) error {
				if e == nil && !d.IsDir() {
					rel, _ := filepath.Rel(dir, path)
					files = append(files, rel)
				}
				return nil
			})
		} else {
			files = []string{in}
		}
		for _, rel := range files {
			data, _ := os.ReadFile(filepath.Join(dir, rel))
			b := c20Expected(rel, rel, data, f, expr)
			if b.diag {
				diags = append(diags, rel)
			} else {
				blocks = append(blocks, c14cliBlockText(b, f)...)
			}
		}
	}
	return blocks, diags, nil
}

// c14cliBlockText: with -m the record text comes from the tool itself (its
// fidelity is C20's subject); here a block is then identified by prefix and
// record count only, see c14cliJudge.
func c14cliBlockText(b c20Block, f c20Flags) []string {
	if len(b.mNodes) > 0 {
		return []string{fmt.Sprintf("\x00M%d\x00%s", len(b.mNodes), b.prefix)}
	}
	if len(b.records) == 0 {
		return nil
	}
	return []string{strings.Join(b.records, "")}
}

// c14cliJudge checks one execution record against the expected blocks.
func c14cliJudge(rep *vrtReport, blocks, diags []string, serialOut map[string]string) (string, string) {
	if rep.Panic != "" {
		return "panic: " + rep.Panic, ""
	}
	if rep.Diverged != "" {
		return "HARNESS: schedule prefix diverged: " + rep.Diverged, ""
	}
	if rep.Deadlock {
		return "deadlock: threads are blocked forever (no enabled thread while some have not finished)", ""
	}
	var out, errOut strings.Builder
	for _, w := range rep.Writes {
		if w.AfterMain {
			return fmt.Sprintf("thread %d wrote %q to %s after main returned (a real process would have exited: the output is lost)", w.Thread, w.Text, w.Stream), ""
		}
		if w.Stream == "stdout" {
			out.WriteString(w.Text)
		} else {
			errOut.WriteString(w.Text)
		}
	}
	// -m blocks: substitute the serial run's text for the block (same bytes expected)
	var want []string
	for _, b := range blocks {
		if strings.HasPrefix(b, "\x00M") {
			want = append(want, serialOut[b])
		} else {
			want = append(want, b)
		}
	}
	if !c20MatchBlocks(out.String(), want) {
		return fmt.Sprintf("stdout is not a concatenation of exactly the per-file blocks of the serial run, each contiguous and intact: got %q, blocks %q", out.String(), want), out.String()
	}
	for _, d := range diags {
		// the wording is free; a bad file must be named, for stdin any diagnostic will do
		if d == " -" {
			if strings.TrimSpace(errOut.String()) == "" {
				return "no diagnostic for stdin on stderr", out.String()
			}
			continue
		}
		if !strings.Contains(errOut.String(), filepath.Base(d)) {
			return fmt.Sprintf("no diagnostic naming %q on stderr (stderr: %q)", d, errOut.String()), out.String()
		}
	}
	return "", out.String()
}

var errCLIHang = errors.New("the tool had not finished after 5 minutes under this schedule (an execution takes a fraction of a second): a worker does not return")

func c14cliRun(bin, dir string, sc c14cliScenario, prefix []int, outFile string) (*vrtReport, error) {
	parts := make([]string, len(prefix))
	for i, p := range prefix {
		parts[i] = strconv.Itoa(p)
	}
	var se bytes.Buffer
	for attempt := 0; ; attempt++ {
		// an execution takes a fraction of a second; five minutes without an end
		// is a worker that never returns under this schedule
		cctx, cancel := context.WithTimeout(context.Background(), 5*time.Minute)
		defer cancel()
		cmd := exec.CommandContext(cctx, bin, sc.Args...)
		cmd.Dir = dir
		cmd.Env = append(os.Environ(), "XV_SCHED_PREFIX="+strings.Join(parts, ","), "XV_SCHED_OUT="+outFile, "XV_SCHED_KEYS=1")
		cmd.Stdin = strings.NewReader(sc.Stdin)
		se.Reset()
		cmd.Stderr = &se
		err := cmd.Run()
		if err == nil {
			break
		}
		if cctx.Err() != nil {
			return nil, errCLIHang
		}
		// a process that could not be started (machine resources) is retried; one
		// that ran and failed is a result
		if _, ran := err.(*exec.ExitError); ran || attempt >= 3 {
			return nil, fmt.Errorf("instrumented tool failed: %v: %s", err, se.String())
		}
		time.Sleep(time.Duration(attempt+1) * 300 * time.Millisecond)
	}
	b, err := os.ReadFile(outFile)
	if err != nil {
		return nil, err
	}
	var rep vrtReport
	if err := json.Unmarshal(b, &rep); err != nil {
		return nil, err
	}
	return &rep, nil
}

func c14CLI(c *run.Check) {
	base, err := os.MkdirTemp("", "xv-c14cli-")
	if err != nil {
		panic(err)
	}
	defer os.RemoveAll(base)
	bin, notes, err := c14cliBuild(base)
	if err != nil {
		// if the tool itself builds, the failure is a limitation of the source
		// rewriter, not a property violation: the CLI half is then not explored
		plain := exec.Command("go", "build", "-o", filepath.Join(base, "plain-xsel"), "github.com/ChrisTrenkamp/xsel/xsel")
		plain.Dir = filepath.Join(run.VerifDir, "harness")
		if out, perr := plain.CombinedOutput(); perr != nil {
			c.Violation(map[string]string{"build": string(out)}, "the xsel command does not build: "+string(out))
			return
		}
		msg := err.Error()
		if len(msg) > 600 {
			msg = msg[:600]
		}
		c.Set("cli_half", "not explored: the instrumented rewrite of xsel/*.go does not build on this tree (the tool itself does): "+msg)
		c.Exhaustive = false
		return
	}
	if len(notes) > 0 {
		c.Set("cli_unmodelled_constructs", notes)
		c.Exhaustive = false
	}
	bound := 2
	if !c.Quick() {
		bound = 3
	}
	// State-key pruning (sched.Explorer.Prune) is sound only if everything the
	// tool's goroutines share goes through the shims: a function other than
	// main/init that assigns to a package-level variable rules it out.
	prune := true
	{
		repo := "/repo"
		if r := os.Getenv("XV_REPO"); r != "" {
			repo = r
		}
		_, writes, err := c14GlobalWrites(filepath.Join(repo, "xsel"))
		var bad []string
		for _, w := range writes {
			if strings.HasSuffix(w, " in main") || strings.Contains(w, "address taken") {
				continue
			}
			bad = append(bad, w)
		}
		if err != nil || len(bad) > 0 {
			prune = false
			c.Set("cli_state_pruning", fmt.Sprintf("off: the tool writes package-level variables outside main/init (%v %v); plain bounded search", bad, err))
		}
	}
	var mu sync.Mutex
	total := 0
	pruneBroken := false
	run.ParallelW(len(c14cliScenarios), func(w, i int) {
		sc := c14cliScenarios[i]
		dir := c14cliPrepare(base, sc, i)
		blocks, diags, _ := c14cliExpected(dir, sc)
		outFile := filepath.Join(base, fmt.Sprintf("out%d.json", i))
		// serial reference for -m record text: the same tool with -c 1
		serialOut := map[string]string{}
		hasM := false
		for _, b := range blocks {
			if strings.HasPrefix(b, "\x00M") {
				hasM = true
			}
		}
		if hasM {
			ser := sc
			ser.Args = append([]string{}, sc.Args...)
			for k := range ser.Args {
				if ser.Args[k] == "-c" {
					ser.Args[k+1] = "1"
				}
			}
			rep, err := c14cliRun(bin, dir, ser, nil, outFile)
			if err != nil {
				c.Violation(map[string]string{"scenario": sc.Name}, "serial run failed: "+err.Error())
				return
			}
			// split the serial stdout into blocks by prefix and record count
			var so strings.Builder
			for _, wr := range rep.Writes {
				if wr.Stream == "stdout" {
					so.WriteString(wr.Text)
				}
			}
			lines := strings.SplitAfter(so.String(), "\n")
			for _, b := range blocks {
				if !strings.HasPrefix(b, "\x00M") {
					continue
				}
				var n int
				var pfx string
				rest := strings.TrimPrefix(b, "\x00M")
				k := strings.Index(rest, "\x00")
				n, _ = strconv.Atoi(rest[:k])
				pfx = rest[k+1:]
				var got []string
				for _, l := range lines {
					if strings.HasPrefix(l, pfx) && len(got) < n && l != "" {
						got = append(got, l)
					}
				}
				serialOut[b] = strings.Join(got, "")
			}
		}
		outcomes := map[string]int{}
		maxPoints := 0
		pr := prune
		ex := &sched.Explorer{Stop: c.TimeUp}
		if c.Quick() {
			ex.MaxExec = 4000
		} else {
			ex.MaxExec = 40000
		}
		var unsupported []string
		ex.Exec = func(prefix []int) ([]sched.Point, string) {
			rep, err := c14cliRun(bin, dir, sc, prefix, outFile)
			if err == errCLIHang {
				return nil, err.Error()
			}
			if err != nil {
				return nil, "HARNESS: " + err.Error()
			}
			if len(rep.Points) > maxPoints {
				maxPoints = len(rep.Points)
			}
			if len(rep.Unsupported) > 0 {
				unsupported = rep.Unsupported
			}
			verdict, out := c14cliJudge(rep, blocks, diags, serialOut)
			outcomes[out]++
			return rep.Points, verdict
		}
		for b := 0; b <= bound && ex.Violation == "" && !ex.Capped; b++ {
			ex.Bound = b
			ex.Executions = 0
			ex.Pruned = 0
			// bounds 0 and 1 are explored without pruning; from bound 1 on also with
			// it, and at bound 1 the two explorations must see the same outcomes
			ex.Prune = pr && b >= 2
			var plain map[string]int
			if pr && b == 1 {
				ex.Explore()
				plain = map[string]int{}
				for k := range outcomes {
					plain[k] = 1
				}
				if ex.Violation == "" && !ex.Capped {
					save := outcomes
					outcomes = map[string]int{}
					px := &sched.Explorer{Bound: 1, Prune: true, Stop: c.TimeUp, Exec: ex.Exec, MaxExec: ex.MaxExec}
					px.Explore()
					same := px.Violation == "" && len(outcomes) == len(plain)
					for k := range outcomes {
						if plain[k] == 0 {
							same = false
						}
					}
					mu.Lock()
					c.Add(fmt.Sprintf("cli_scenario_%d_schedules_bound_1_with_pruning", i), int64(px.Executions))
					if !same && !px.Capped {
						pruneBroken = true
						c.Set("cli_state_pruning", fmt.Sprintf("off: scenario %q at bound 1 gave different outcome sets with and without pruning (%d vs %d) - the state key misses something; plain bounded search", sc.Name, len(outcomes), len(plain)))
					}
					mu.Unlock()
					for k, v := range save {
						outcomes[k] += v
					}
					if !same {
						pr = false
					}
				}
			} else {
				ex.Explore()
			}
			mu.Lock()
			c.Add(fmt.Sprintf("cli_scenario_%d_schedules_bound_%d", i, b), int64(ex.Executions))
			if ex.Prune {
				c.Add(fmt.Sprintf("cli_scenario_%d_pruned_decisions_bound_%d", i, b), int64(ex.Pruned))
			}
			total += ex.Executions
			mu.Unlock()
			c.Transitions.Add(int64(ex.Executions))
			c.Evaluations.Add(int64(ex.Executions))
			c.Traces.Add(int64(ex.Executions))
		}
		if strings.HasPrefix(ex.Violation, "HARNESS:") {
			mu.Lock()
			c.Set(fmt.Sprintf("cli_scenario_%d_exploration_problem", i), ex.Violation)
			mu.Unlock()
			c.Exhaustive = false
			return
		}
		if ex.Violation != "" {
			// re-run the recorded schedule: it must fail again
			rep, err := c14cliRun(bin, dir, sc, ex.Schedule, outFile)
			again := "?"
			if err == nil {
				again, _ = c14cliJudge(rep, blocks, diags, serialOut)
			} else if err == errCLIHang {
				again = err.Error()
			}
			if again == "" {
				// a verdict that does not reproduce from its own schedule is not believed
				// (and not reported as a violation): the run is marked non-exhaustive
				mu.Lock()
				c.Set(fmt.Sprintf("cli_scenario_%d_unreproducible_verdict", i), ex.Violation)
				mu.Unlock()
				c.Exhaustive = false
				fmt.Println("note: a CLI verdict did not reproduce from its recorded schedule and is not reported:", ex.Violation)
				return
			}
			c.Violation(c14cliReplay{Kind: "cli", Scenario: sc, Schedule: ex.Schedule, Detail: ex.Violation}, fmt.Sprintf("xsel %s under schedule %s: %s", strings.Join(sc.Args, " "), compactSchedule(ex.Schedule), ex.Violation))
			return
		}
		if ex.Capped || len(unsupported) > 0 {
			c.Exhaustive = false
		}
		if len(unsupported) > 0 {
			c.Set("cli_unmodelled_operations", unsupported)
		}
		c.States.Add(int64(maxPoints))
		c.Distinct("cli|" + sc.Name)
		mu.Lock()
		c.Set(fmt.Sprintf("cli_scenario_%d_distinct_output_orders", i), len(outcomes))
		mu.Unlock()
		c.Sample(map[string]interface{}{"cli_scenario": sc.Name, "args": sc.Args, "scheduling_points_per_execution": maxPoints, "distinct_stdout_orders": len(outcomes)})
	})
	c.Set("cli_executions", total)
	if prune && !pruneBroken && c.Get("cli_state_pruning") == nil {
		c.Set("cli_state_pruning", "on from preemption bound 2: a decision (state key, thread to run) is expanded once per budget level; state key = per-thread history of operations and observed values + channel contents + WaitGroup counters + mutex states + the sequence of writes so far; validated per scenario by comparing the outcome sets of the pruned and the plain exploration at bound 1")
	}
	if c.Violations() == 0 {
		c14cliRacePass(c, base)
	}
}

// c14cliReplayRun re-executes a stored CLI schedule.
func c14cliReplayRun(r c14cliReplay) string {
	base, err := os.MkdirTemp("", "xv-c14cli-")
	if err != nil {
		return err.Error()
	}
	defer os.RemoveAll(base)
	bin, _, err := c14cliBuild(base)
	if err != nil {
		return err.Error()
	}
	dir := c14cliPrepare(base, r.Scenario, 0)
	blocks, diags, _ := c14cliExpected(dir, r.Scenario)
	rep, err := c14cliRun(bin, dir, r.Scenario, r.Schedule, filepath.Join(base, "out.json"))
	if err != nil {
		return err.Error()
	}
	for _, w := range rep.Writes {
		fmt.Printf("thread %d -> %s: %q\n", w.Thread, w.Stream, w.Text)
	}
	v, _ := c14cliJudge(rep, blocks, diags, map[string]string{})
	return v
}

// c14cliRacePass is the free-running counterpart of the CLI exploration: the
// REAL tool (no rewriting), built with the race detector, on the scenario
// inputs with every input named several times and eight workers. What a worker
// does between two of its synchronisation or output operations is one step of
// the exploration above; state shared inside such a step (a package-level
// buffer used while formatting one file's block) only shows here. stdout must
// be the same multiset of lines as with one worker, and the race detector must
// stay silent.
func c14cliRacePass(c *run.Check, base string) {
	bin := filepath.Join(base, "race-xsel")
	build := exec.Command("go", "build", "-race", "-o", bin, "github.com/ChrisTrenkamp/xsel/xsel")
	build.Dir = filepath.Join(run.VerifDir, "harness")
	if out, err := build.CombinedOutput(); err != nil {
		c.Set("cli_race_pass", "skipped: the race-detector build of the tool failed: "+firstLine(string(out)))
		return
	}
	rounds := 6
	for i, sc := range c14cliScenarios {
		dir := c14cliPrepare(base, sc, 100+i)
		var flags, inputs []string
		seenExpr := false
		for k := 0; k < len(sc.Args); k++ {
			a := sc.Args[k]
			switch {
			case !seenExpr && a == "-c":
				k++ // replaced below
			case !seenExpr && a == "-x":
				flags = append(flags, a, sc.Args[k+1])
				k++
				seenExpr = true
			case !seenExpr:
				flags = append(flags, a)
			case a == "-":
				// stdin can be named once only
			default:
				inputs = append(inputs, a)
			}
		}
		var many []string
		for r := 0; r < 5; r++ {
			many = append(many, inputs...)
		}
		runOnce := func(workers string) (string, string, error) {
			ctx, cancel := context.WithTimeout(context.Background(), 5*time.Minute)
			defer cancel()
			cmd := exec.CommandContext(ctx, bin, append(append([]string{"-c", workers}, flags...), many...)...)
			cmd.Dir = dir
			var so, se bytes.Buffer
			cmd.Stdout, cmd.Stderr = &so, &se
			err := cmd.Run()
			if ctx.Err() != nil {
				return "", "", errCLIHang
			}
			_ = err // the exit status of the tool is C20's business
			lines := strings.Split(so.String(), "\n")
			sort.Strings(lines)
			return strings.Join(lines, "\n"), se.String(), nil
		}
		want, serr, err := runOnce("1")
		if err != nil || strings.Contains(serr, "WARNING: DATA RACE") {
			continue // a serial run that hangs or races is not this pass's finding to make
		}
		for r := 0; r < rounds; r++ {
			c.Evaluations.Add(1)
			got, se, err := runOnce("8")
			detail := ""
			switch {
			case err == errCLIHang:
				detail = err.Error()
			case strings.Contains(se, "WARNING: DATA RACE"):
				k := strings.Index(se, "WARNING: DATA RACE")
				detail = "the race detector reports:\n" + se[k:min(len(se), k+1500)]
			case got != want:
				detail = "stdout of the real tool with 8 workers is not the same multiset of lines as with 1 worker"
			}
			if detail != "" {
				c.Violation(map[string]interface{}{"kind": "cli-race-pass", "scenario": sc.Name, "args": append(append([]string{"-c", "8"}, flags...), many...)},
					fmt.Sprintf("free-running race-detector build of the tool, scenario %q (xsel -c 8 %s <each input 5 times>): %s", sc.Name, strings.Join(flags, " "), detail))
				return
			}
		}
	}
	c.Set("cli_race_pass", fmt.Sprintf("the real tool built with -race: %d scenarios x %d runs with 8 workers and every input named 5 times: stdout = the one-worker multiset of lines, race detector silent", len(c14cliScenarios), rounds))
}
