package props

import (
	"encoding/json"
	"fmt"

	"xv/adoc"
	"xv/refxp"
	"xv/run"
)

// ---- C02: predicates use per-context-node proximity position and true size --

var c02Preds = []string{
	"1", "2", "3", "0", "-1", "1.5", "0.5", "0 div 0", "1 div 0", "last()", "last()-1",
	"position()=2", "position()<=2", "position()=last()", "position() mod 2 = 1",
	"a", "@x", "'s'", "''", "true()", "false()", ".=1", "count(a)", "a[1]", "position()", "last() > 1",
	"count(*)", "number(@x)", "string-length(name())", "not(b)", "position() = last() - 1", "2 = position()",
	// position() and last() inside the arguments of a function call keep the predicate's context
	"not(position() = 1)", "boolean(position() = last())", "number(last())", "floor(last() div 2)", "not(position() < last())",
	"string(position()) = '2'", "round(position() div 2) = 1", "concat(position(), '') = string(last())", "count(a[position() = last()]) = 1",
}

func c02Exprs(quick bool) []string {
	ctxpaths := []string{"//a/", "//*/", "/*/*/", "/", "//*/*/"}
	if quick {
		ctxpaths = []string{"//*/", "/*/*/"}
	}
	tests := []string{"*", "a", "node()"}
	var out []string
	for _, cp := range ctxpaths {
		for _, ax := range refxp.Axes {
			if ax == "namespace" {
				continue
			}
			for _, t := range tests {
				if ax == "attribute" && t == "a" {
					t = "x"
				}
				for _, p := range c02Preds {
					out = append(out, fmt.Sprintf("%s%s::%s[%s]", cp, ax, t, p))
				}
			}
		}
	}
	// attribute and namespace nodes as context nodes (several at once): the axes
	// that lead out of them, with predicates
	for _, cp := range []string{"//@*/", "//*/namespace::*/", "//*/@x/"} {
		for _, ax := range []string{"parent", "ancestor", "ancestor-or-self", "self", "following", "preceding"} {
			for _, t := range []string{"*", "node()"} {
				for _, p := range []string{"1", "2", "last()", "position()=last()", "a", "true()", "not(position() = 1)", ". != 'a'"} {
					out = append(out, fmt.Sprintf("%s%s::%s[%s]", cp, ax, t, p))
				}
			}
		}
	}
	// predicate pairs: renumbering of survivors
	pairs := []string{"1", "2", "last()", "position()=2", "position()<=2", "a", "@x", "true()", "position()=last()", "last()-1", "count(a)", "not(a)"}
	pairAxes := []string{"child", "ancestor", "preceding", "following-sibling", "preceding-sibling", "descendant"}
	if !quick {
		pairAxes = nil
		for _, a := range refxp.Axes {
			if a != "namespace" {
				pairAxes = append(pairAxes, a)
			}
		}
	}
	pairCtx := []string{"//*/", "//a/", "/"}
	if quick {
		pairCtx = []string{"//*/"}
	}
	for _, cp := range pairCtx {
		for _, ax := range pairAxes {
			for _, t := range []string{"*", "node()"} {
				for _, p := range pairs {
					for _, q := range pairs {
						out = append(out, fmt.Sprintf("%s%s::%s[%s][%s]", cp, ax, t, p, q))
					}
				}
			}
		}
	}
	// abbreviated steps with predicates
	for _, p := range c02Preds {
		out = append(out, "//a["+p+"]", "//*["+p+"]", "//*/*["+p+"]", "//node()["+p+"]", "//@x["+p+"]", "//*/@*["+p+"]", "/*/*/*["+p+"]", "//a/b["+p+"]", "//*[a]/*["+p+"]")
	}
	// nested predicates
	out = append(out, "//*[*[2]]", "//*[*[last()]/*]", "//a[b[last()]]", "//*[count(*[position()<last()])=1]", "//*[*[position()=last()][1]]",
		"//*[ancestor::*[1]/@x]", "//*[preceding-sibling::*[1][self::a]]", "//*[following-sibling::*[last()][self::b]]", "//*[ancestor::*[last()]]", "//*[preceding::*[1]/self::a]")
	// filter expressions: document-order numbering, continued paths
	Es := []string{"//a", "//*", "//a/ancestor::*", "//*/preceding::node()", "//b/ancestor-or-self::*", "//*/preceding-sibling::*", "//a | //b", "$v", "$w", "els()", "/*/*"}
	fp := []string{"1", "2", "last()", "position()=2", "position()<=2", "last()-1", "a", "true()", "0.5", "position()=last()", "not(position() < last())", "number(last())"}
	for _, e := range Es {
		pe := "(" + e + ")"
		if e == "$v" || e == "$w" || e == "els()" {
			pe = e
		}
		for _, p := range fp {
			out = append(out, pe+"["+p+"]")
			for _, q := range []string{"1", "last()", "position()=2", "a"} {
				out = append(out, pe+"["+p+"]["+q+"]")
			}
			out = append(out, pe+"["+p+"]/*", pe+"["+p+"]/..", pe+"["+p+"]//*", pe+"["+p+"]/@x", pe+"["+p+"]/following-sibling::*[1]", "count("+pe+"["+p+"])")
		}
		out = append(out, pe+"/*", pe+"//*", pe+"/..", pe+"/@*", pe+"/a[1]", pe+"//a[last()]", pe+"/ancestor::*[1]", pe+"/self::a", "count("+pe+"/*)", pe+"/*/..", pe+"//text()")
	}
	return out
}

func c02EnvFor(d *adoc.Doc) EnvSpec {
	// $v: all elements in document order; $w: the same in reverse order
	var v, w []string
	for _, n := range d.Nodes {
		if n.Kind == adoc.Elem {
			v = append(v, n.Path())
		}
	}
	for i := len(v) - 1; i >= 0; i-- {
		w = append(w, v[i])
	}
	return EnvSpec{Vars: []VarSpec{{Local: "v", Type: "node-set", Nodes: v}, {Local: "w", Type: "node-set", Nodes: w}}, Funcs: []string{"els"}}
}

func C02(c *run.Check) {
	defer finishTriage()
	n := 4
	if !c.Quick() {
		n = 5
	}
	shapes := adoc.Forests(n, adoc.ShapeCfg{Names: []string{"a", "b"}, Leaves: []adoc.Kind{adoc.Text}})
	exprs := mustParse(c02Exprs(c.Quick()))
	for _, e := range exprs {
		if e.Err != nil {
			fmt.Println("harness: reference parser rejects", e.Text, e.Err)
		}
	}
	c.Rule = fmt.Sprintf("all ordered forests with <=%d nodes over names {a,b} and text leaves x decorations {none, @x on every element} x %d predicate-bearing expressions (12 axes x 3 tests x 5 context paths x %d predicates; attribute and namespace context nodes x the 6 axes leading out of them x 8 predicates; ordered predicate pairs; nested predicates; filter expressions (E)[p], (E)[p][q], $v[p], els()[p] and continued paths (E)[p]/step, $v//step, f()/step), evaluated from the root; surviving node sets compared by identity with the reference; non-trivial = distinct (expression, non-empty result size)", n, len(exprs), len(c02Preds))
	r := newXRunner(c, "C02", EnvSpec{})
	r.envFor = c02EnvFor
	type job struct {
		f    []*adoc.Tm
		deco int
	}
	var jobs []job
	for _, f := range shapes {
		for _, d := range []int{adoc.D0, adoc.D1} {
			jobs = append(jobs, job{f, d})
		}
	}
	rootOnly := func(n *adoc.Node) bool { return n.Kind == adoc.Root }
	gen := func(i int) *adoc.Doc {
		d := adoc.Instantiate(jobs[i].f, jobs[i].deco)
		// numeric text so that .=1 and number() predicates are meaningful
		k := 0
		for _, nd := range d.Nodes {
			if nd.Kind == adoc.Text {
				k++
				nd.Value = fmt.Sprint(k)
			}
		}
		return d
	}
	r.runGrid(len(jobs), gen, exprs, rootOnly)
	for i := 3; i < len(jobs); i += 211 {
		c.Sample(map[string]string{"doc": gen(i).String(), "expr": exprs[(i*31)%len(exprs)].Text})
	}
	c.Set("documents", len(jobs))
	c.Set("expressions", len(exprs))
	c.Assume("reference evaluator refxp; order of the returned slice is C03's subject, here only which nodes survive")
}

func init() {
	Registry["C02"] = Prop{"exploration", C02}
	replayers["C02"] = func(raw json.RawMessage) string {
		var x XCase
		if err := json.Unmarshal(raw, &x); err != nil {
			return err.Error()
		}
		return replayX(x, false)
	}
}
