package props

import (
	"encoding/json"
	"fmt"
	"sort"
	"strings"

	"github.com/ChrisTrenkamp/xsel"

	"xv/adoc"
	"xv/impl"
	"xv/refxp"
	"xv/run"
)

// ---- C11: names resolve through the query's bindings ---------------------------

// recording user functions: they log (name, argument values, context nodes,
// position, size) and return a value that depends on all of them.
func recValueString(args []string, ctxIDs []int, pos, size int) string {
	return fmt.Sprintf("args=%s ctx=%v pos=%d size=%d", strings.Join(args, ","), ctxIDs, pos, size)
}

func mkRec(name, space string, ret func(nargs int, log string) (refxp.Value, xsel.Result)) stockFunc {
	return stockFunc{space: space, local: name,
		refRec: func(rec *recorder) refxp.UserFunc {
			return func(ctx refxp.Ctx, args []refxp.Value) (refxp.Value, error) {
				var as []string
				for _, a := range args {
					o := RefOutcome(a, nil)
					o.Nodes = sortedCopy(o.Nodes)
					as = append(as, o.String())
				}
				var ids []int
				for _, n := range ctx.Nodes {
					ids = append(ids, n.ID)
				}
				l := name + ":" + recValueString(as, ids, ctx.Pos, ctx.Size)
				if rec != nil {
					rec.ref = append(rec.ref, l)
				}
				v, _ := ret(len(args), l)
				return v, nil
			}
		},
		implRec: func(b *impl.Binding, rec *recorder) xsel.Function {
			return func(c xsel.Context, args ...xsel.Result) (xsel.Result, error) {
				var as []string
				for _, a := range args {
					o := ImplOutcome(b, a, nil)
					o.Nodes = sortedCopy(o.Nodes)
					as = append(as, o.String())
				}
				var ids []int
				if ns, ok := c.Result().(xsel.NodeSet); ok {
					for _, cur := range ns {
						if n, ok := b.ToNode[cur]; ok {
							ids = append(ids, n.ID)
						} else {
							ids = append(ids, -1)
						}
					}
				} else {
					ids = append(ids, -2)
				}
				// the library's ContextPosition() is 0-based
				l := name + ":" + recValueString(as, ids, c.ContextPosition()+1, c.ContextSize())
				if rec != nil {
					rec.impl = append(rec.impl, l)
				}
				_, r := ret(len(args), l)
				return r, nil
			}
		},
	}
}

func init() {
	str := func(n int, l string) (refxp.Value, xsel.Result) { return l, xsel.String(l) }
	stockFuncs["rec-f"] = mkRec("f", "", str)
	stockFuncs["rec-pf"] = mkRec("f", adoc.URI_U, func(n int, l string) (refxp.Value, xsel.Result) { return "U:" + l, xsel.String("U:" + l) })
	stockFuncs["rec-vf"] = mkRec("f", adoc.URI_V, func(n int, l string) (refxp.Value, xsel.Result) {
		return float64(n) + 0.5, xsel.Number(float64(n) + 0.5)
	})
	stockFuncs["rec-count"] = mkRec("count", "", func(n int, l string) (refxp.Value, xsel.Result) { return float64(100 + n), xsel.Number(100 + n) })
	stockFuncs["rec-true"] = mkRec("true", "", func(n int, l string) (refxp.Value, xsel.Result) { return false, xsel.Bool(false) })
	stockFuncs["rec-pos"] = mkRec("even", "", nil)
	// even(): true for even context positions (drives predicates from a user function)
	sf := stockFuncs["rec-pos"]
	sf.refRec = func(rec *recorder) refxp.UserFunc {
		return func(ctx refxp.Ctx, args []refxp.Value) (refxp.Value, error) { return ctx.Pos%2 == 0, nil }
	}
	sf.implRec = func(b *impl.Binding, rec *recorder) xsel.Function {
		return func(c xsel.Context, args ...xsel.Result) (xsel.Result, error) {
			return xsel.Bool((c.ContextPosition()+1)%2 == 0), nil
		}
	}
	stockFuncs["rec-pos"] = sf
}

var c11Exprs = []string{
	"//a", "//p:a", "//q:a", "//p:*", "//q:*", "//*:a", "//*:b", "//@x", "//@p:x", "//@q:y", "//@p:*", "//@*:x", "//@q:*", "//b", "//p:b", "/p:a", "/*/q:*", "//*[@p:x]", "//*[p:a]", "count(//p:*)",
	"descendant::p:a", "//self::p:a", "//ancestor-or-self::q:*", "//attribute::p:x", "//p:a/@x", "//p:a | //q:a", "name(//p:*)", "namespace-uri(//q:*)", "local-name(//@p:*)",
	"$n", "$s", "$b", "$ns", "$p:n", "$q:n", "$p:s", "$ns/..", "$ns[1]", "count($ns)", "$n + 1", "concat($s, $p:s)", "$b and true()", "$ns | //a", "$ns/@*", "string($ns)", "$unbound", "$p:unbound", "$r:n", "$n = $p:n",
	"f()", "f(1)", "f(1,'a',.)", "f(//a, $n, $b)", "p:f()", "p:f(2, $s)", "q:f(//a)", "q:f()", "r:f()", "g()", "p:g()", "//a[f()]", "//*[f(position(), last())]", "//*/f()", "//a/p:f(.)", "f(f(1))", "f(p:f())",
	"p:count(//a)", "q:true()", "p:concat('a','b')", "q:string()", "//*[p:true()]", "p:not(1)", "q:count(//a) + 1", "r:count(//a)", "p:position()", "//*[q:last()]", "p:name()",
	"count(//a)", "count()", "true()", "not(true())", "//*[true()]", "//*[even()]", "//*/*[even()]", "f(count(//a), true())", "string-length(f())", "//*[position() = last()][f(.)]", "//node()[f()]", "//@*[f(.)]",
}

func c11Envs() []EnvSpec {
	uris := []string{"", adoc.URI_U, adoc.URI_V}
	var envs []EnvSpec
	for _, pu := range uris {
		for _, qu := range uris {
			ns := map[string]string{}
			if pu != "" {
				ns["p"] = pu
			}
			if qu != "" {
				ns["q"] = qu
			}
			for lib := 0; lib < 3; lib++ {
				var funcs []string
				switch lib {
				case 1:
					funcs = []string{"rec-f", "rec-pf", "rec-pos"}
				case 2:
					funcs = []string{"rec-f", "rec-pf", "rec-vf", "rec-count", "rec-true", "rec-pos"}
				}
				// every other environment is handed over by assigning caller-built maps
				envs = append(envs, EnvSpec{NS: ns, Funcs: funcs, Assign: len(envs)%2 == 1})
			}
		}
	}
	return envs
}

func c11Vars(d *adoc.Doc) []VarSpec {
	var els []string
	for _, n := range d.Nodes {
		if n.Kind == adoc.Elem {
			els = append(els, n.Path())
		}
	}
	rev := make([]string, len(els))
	for i, p := range els {
		rev[len(els)-1-i] = p
	}
	return []VarSpec{
		numVar("n", 2.5), strVar("s", "str"), boolVar("b", true), {Local: "ns", Type: "node-set", Nodes: rev},
		{Space: adoc.URI_U, Local: "n", Type: "number", Num: "7"}, {Space: adoc.URI_U, Local: "s", Type: "string", Str: "ustr"},
		{Space: adoc.URI_V, Local: "n", Type: "number", Num: "9"},
	}
}

// c11Wrappers compares the three ExecAs* entry points with Exec on one
// namespaced document under every binding environment.
func c11Wrappers(c *run.Check, envs []EnvSpec, exprs []refExpr) {
	d := adoc.NewDoc()
	r := adoc.ENS(adoc.URI_U, "p", "a")
	r.Add(adoc.ANS(adoc.URI_U, "p", "x", "1"))
	r.Add(adoc.A("x", "2"))
	r.Add(adoc.ENS(adoc.URI_V, "q", "a", adoc.T("3")))
	r.Add(adoc.E("a", adoc.T("4")))
	r.Add(adoc.E("b"))
	d.Root.Add(r)
	doc := d.Finish()
	b, err := impl.Bind(doc)
	if err != nil {
		c.Set("wrapper_family_problem", err.Error())
		c.Exhaustive = false
		return
	}
	type wcase struct {
		Kind string  `json:"kind"`
		Expr string  `json:"expr"`
		Env  EnvSpec `json:"env"`
		Why  string  `json:"why"`
	}
	for _, env := range envs {
		env.Vars = c11Vars(doc)
		env.rec = &recorder{}
		for _, e := range exprs {
			g, _ := BuildImpl(e.Text)
			if g == nil {
				continue
			}
			settings := env.ImplSettings(b)
			res, rerr := xsel.Exec(b.Root, g, settings...)
			c.Evaluations.Add(4)
			s, serr := xsel.ExecAsString(b.Root, g, env.ImplSettings(b)...)
			n, nerr := xsel.ExecAsNumber(b.Root, g, env.ImplSettings(b)...)
			ns, nserr := xsel.ExecAsNodeset(b.Root, g, env.ImplSettings(b)...)
			why := ""
			switch {
			case rerr != nil:
				if serr == nil || nerr == nil || nserr == nil {
					why = fmt.Sprintf("Exec fails (%v) but ExecAsString/ExecAsNumber/ExecAsNodeset errors are %v / %v / %v", rerr, serr, nerr, nserr)
				}
			case res == nil:
				// judged by C15
			default:
				if serr != nil || s != res.String() {
					why = fmt.Sprintf("ExecAsString = %q, %v but Exec gives %q", s, serr, res.String())
				} else if nerr != nil || !(n == res.Number() || (n != n && res.Number() != res.Number())) {
					why = fmt.Sprintf("ExecAsNumber = %v, %v but Exec gives %v", n, nerr, res.Number())
				} else if rs, isSet := res.(xsel.NodeSet); isSet {
					if nserr != nil || len(ns) != len(rs) {
						why = fmt.Sprintf("ExecAsNodeset = %d nodes, %v but Exec gives %d nodes", len(ns), nserr, len(rs))
					} else {
						for i := range rs {
							if rs[i] != ns[i] {
								why = "ExecAsNodeset returns other nodes than Exec"
							}
						}
					}
				} else if nserr == nil {
					why = "ExecAsNodeset accepts a result that is not a node-set"
				}
			}
			if why != "" {
				c.Violation(wcase{Kind: "wrappers", Expr: e.Text, Env: env, Why: why}, fmt.Sprintf("[wrappers] %s under %v: %s", e.Text, env.NS, why))
				return
			}
		}
	}
	c.Distinct("wrapper family")
	c.Set("wrapper_family", "ExecAsString/ExecAsNumber/ExecAsNodeset against Exec for every expression under every environment on one namespaced document")
}

// c11Reserved: prefixes and local names that spell axis names / node types.
func c11ReservedDocs() []*adoc.Doc {
	names := []string{"a", "child", "self", "text", "descendant", "node"}
	var docs []*adoc.Doc
	for rot := 0; rot < 2; rot++ {
		d := adoc.NewDoc()
		r := adoc.E("r")
		for i, n := range names {
			uri := []string{adoc.URI_U, adoc.URI_V, ""}[(i+rot)%3]
			e := adoc.ENS(uri, "", n, adoc.T(fmt.Sprint(i)))
			e.Add(adoc.ANS(adoc.URI_U, "", names[(i+1)%len(names)], "x"))
			r.Add(e)
			// the same local name in the other namespace
			r.Add(adoc.ENS([]string{adoc.URI_V, adoc.URI_U, adoc.URI_U}[(i+rot)%3], "", n))
		}
		d.Root.Add(r)
		docs = append(docs, d.Finish())
	}
	return docs
}

func c11ReservedExprs() []string {
	prefixes := []string{"p", "self", "child", "text", "descendant"}
	locals := []string{"a", "child", "self", "text", "descendant", "node", "*"}
	var out []string
	for _, p := range prefixes {
		for _, l := range locals {
			out = append(out, "//"+p+":"+l, "/r/"+p+":"+l, "//@"+p+":"+l, "//*[self::"+p+":"+l+"]", "count(//"+p+":"+l+")")
		}
	}
	for _, l := range locals[:6] {
		out = append(out, "//*:"+l, "//@*:"+l, "//"+l)
	}
	return out
}

func c11Logs(d *adoc.Doc, ctx *adoc.Node, e refExpr, got, want Outcome, env EnvSpec) string {
	// "a variable evaluates to exactly the bound value": a bare reference to a
	// node-set variable returns the bound sequence, in the bound order
	if vr, ok := e.AST.(refxp.VarRef); ok && got.Type == "node-set" {
		for _, v := range env.Vars {
			if v.Type == "node-set" && v.Local == vr.Local && vr.Prefix == "" && v.Space == "" {
				var ids []int
				for _, p := range v.Nodes {
					if n := d.Resolve(p); n != nil {
						ids = append(ids, n.ID)
					}
				}
				if fmt.Sprint(ids) != fmt.Sprint(got.Nodes) {
					return fmt.Sprintf("$%s is bound to the node sequence %v but evaluated to %v", v.Local, ids, got.Nodes)
				}
			}
		}
	}
	if env.rec == nil {
		return ""
	}
	a := append([]string{}, env.rec.impl...)
	b := append([]string{}, env.rec.ref...)
	sort.Strings(a)
	sort.Strings(b)
	if strings.Join(a, "\n") != strings.Join(b, "\n") {
		return fmt.Sprintf("user functions observed different calls: implementation %q, reference %q", a, b)
	}
	return ""
}

func C11(c *run.Check) {
	defer finishTriage()
	n := 3
	if !c.Quick() {
		n = 4
	}
	shapes := c01Shapes(n)
	type job struct {
		f    []*adoc.Tm
		deco int
	}
	var jobs []job
	for _, f := range shapes {
		for _, dc := range []int{adoc.D2, adoc.D3} {
			jobs = append(jobs, job{f, dc})
		}
	}
	exprs := mustParse(c11Exprs)
	for _, e := range exprs {
		if e.Err != nil {
			fmt.Println("harness: reference parser rejects", e.Text, e.Err)
		}
	}
	envs := c11Envs()
	for ei, env := range envs {
		if c.TimeUp() || (!triage && c.Violations() > 0) {
			break
		}
		env := env
		r := newXRunner(c, "C11", env)
		r.envFor = func(d *adoc.Doc) EnvSpec {
			e := env
			e.Vars = c11Vars(d)
			e.rec = &recorder{}
			return e
		}
		r.extra = c11Logs
		ctxOK := func(nd *adoc.Node) bool { return nd.Kind == adoc.Root || (ei%3 == 2 && nd.Kind == adoc.Elem) }
		r.runGrid(len(jobs), func(i int) *adoc.Doc { return adoc.Instantiate(jobs[i].f, jobs[i].deco) }, exprs, ctxOK)
	}
	// the convenience entry points ExecAsString / ExecAsNumber / ExecAsNodeset take
	// the same bindings as Exec: under every environment their answers must be
	// Exec's answer converted (and an error exactly when Exec gives one)
	if c.Violations() == 0 {
		c11Wrappers(c, envs, exprs)
	}
	// prefixes and local names spelled like axis names / node types
	{
		rd := c11ReservedDocs()
		re := mustParse(c11ReservedExprs())
		for _, e := range re {
			if e.Err != nil {
				fmt.Println("harness: reference parser rejects", e.Text, e.Err)
			}
		}
		for _, m := range []map[string]string{
			{"p": adoc.URI_U, "self": adoc.URI_U, "child": adoc.URI_V, "text": adoc.URI_U, "descendant": adoc.URI_V},
			{"p": adoc.URI_V, "self": adoc.URI_V, "child": adoc.URI_U, "text": adoc.URI_V, "descendant": adoc.URI_U},
		} {
			r := newXRunner(c, "C11", EnvSpec{NS: m})
			r.runGrid(len(rd), func(i int) *adoc.Doc { return rd[i].Clone().Finish() }, re, func(nd *adoc.Node) bool { return nd.Kind == adoc.Root })
		}
	}
	// a prefix bound to the EMPTY namespace name is bound (it names the names in no
	// namespace), not unbound
	if c.Violations() == 0 || triage {
		ee := mustParse([]string{"//n:a", "//n:*", "//@n:x", "//n:a/@n:x", "count(//n:*)", "//*[n:a]", "//n:b | //p:a", "//p:*/n:*", "//n:*/@n:*", "count(//@n:*)", "//*[@n:x]", "//n:a[1]", "/n:*", "//n:nosuch", "//m:a", "name(//n:*[1])", "//*/n:a/.."})
		for ai, m := range []map[string]string{{"n": ""}, {"n": "", "p": adoc.URI_U}, {"n": "", "p": adoc.URI_V, "q": ""}} {
			r := newXRunner(c, "C11", EnvSpec{NS: m, Assign: ai == 1})
			r.runGrid(len(jobs), func(i int) *adoc.Doc { return adoc.Instantiate(jobs[i].f, jobs[i].deco) }, ee, func(nd *adoc.Node) bool { return nd.Kind == adoc.Root })
		}
	}
	c.Sample(map[string]interface{}{"doc": adoc.Instantiate(jobs[len(jobs)-3].f, adoc.D3).String(), "expr": "//*[f(position(), last())]", "bindings": envs[5]})
	c.Sample(map[string]interface{}{"doc": adoc.Instantiate(jobs[len(jobs)/2].f, adoc.D2).String(), "expr": "//@p:x", "bindings": envs[12]})
	c.Rule = fmt.Sprintf("forests <=%d nodes x decorations with elements/attributes in namespaces urn:u/urn:v/default x %d binding environments (every other one handed over by ASSIGNING caller-built maps to the ContextSettings fields, as the command line tool does, the rest through WithNS/WithVariable/WithFunction; p,q each unbound/urn:u/urn:v incl. aliases; function library none / f,p:f / + q:f and user count() and true() shadowing builtins; variables of all four types in no namespace and in two namespaces) x %d expressions (prefixed and wildcard name tests on elements and attributes, variable references, user-function calls in paths, predicates and arguments, unbound prefix/variable/function, prefixed calls whose local name spells a core function); 3 environments with a prefix bound to the empty namespace name x 17 prefixed name tests; result compared with the reference evaluated under the same bindings, and the (arguments, context nodes, position, size) seen by the recording user functions compared as multisets; non-trivial = distinct (expression, context kind, result)", n, len(envs), len(exprs))
	c.Set("environments", len(envs))
	c.Set("documents", len(jobs))
	c.Assume("the library's Context.ContextPosition() is 0-based (position()-1); unbound names appear only where every evaluator must evaluate them")
}

func init() {
	Registry["C11"] = Prop{"exploration", C11}
	replayers["C11"] = func(raw json.RawMessage) string {
		var x XCase
		json.Unmarshal(raw, &x)
		x.Env.rec = &recorder{}
		if msg := replayX(x, false); msg != "" {
			return msg
		}
		a := append([]string{}, x.Env.rec.impl...)
		b := append([]string{}, x.Env.rec.ref...)
		sort.Strings(a)
		sort.Strings(b)
		if strings.Join(a, "\n") != strings.Join(b, "\n") {
			return fmt.Sprintf("user functions observed different calls: implementation %q, reference %q", a, b)
		}
		return ""
	}
}
