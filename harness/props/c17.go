package props

import (
	"encoding/json"
	"fmt"
	"strings"

	"github.com/ChrisTrenkamp/xsel"
	"golang.org/x/net/html"

	"xv/adoc"
	"xv/impl"
	"xv/run"
)

// ---- C17: ReadHtml mirrors the HTML5 parse tree without namespaces ------------

var c17Tokens = []string{"<p>", "</p>", "<b>", "</b>", "<br>", "<table>", "<td>", "<svg>", "</svg>", `<a x=1 xmlns:q="u" q:y=2 xmlns="d">`, "t", "<!--c-->", "</html>", "</body>",
	"</table>", "<title>", "</a>", `<svg xmlns:xlink="l" xlink:href="h">`, `<i xmlnsfoo=1 xmlns-x=2 x:xmlns=3 XMLNS:Q=4>`,
	"&amp;lt;&#38;amp;", "<script>a &lt; b &amp;&amp; c</script>", "<pre>\n&amp;amp;</pre>", `<a title="&amp;lt;" href='?a=1&amp;b=2'>`}

var c17Tokens2 = []string{"<ul>", "<li>", "</li>", "<select>", "<option>", "<textarea>", "</textarea>", "<style>", "</style>", "<TITLE>", "</title>", "<tr>", "<th>", "<tbody>", "<caption>",
	"<form>", "<input disabled VALUE=x>", "<h1>", "<h2>", "</h1>", "&lt;", "&amp;", "&nbsp;", "&#x41;", "&bogus;", "<math>", "<mi>", "</math>", "<template>", "</template>", "<![CDATA[x]]>", "<?pi?>", "<!DOCTYPE x>",
	"\x00", "<a b b=2>", "<p/>", "<br/>", "</br>", "<img src=a>", "<body class=c>", "<html lang=en>", "<head>", "</head>", "<frameset>", "<noscript>", "<plaintext>",
	"<o:p:q data:x:y=1 :z=2 w:=3>", "</o:p:q>", "<:b a::c=1 ::=2>",
	"<svg viewBox='0 0 1 1' preserveAspectRatio=x>", "<clipPath clipPathUnits=u>", "<foreignObject>", "</svg>", "<math definitionURL=u>", "<linearGradient gradientUnits=g>", "<DIV ID=A>",
	// attribute values kept verbatim: padded with blanks, tabs, line feeds, NBSP; empty; blank only
	`<a title=" a b " class=" x" alt="&#9;t&#10;">`, "<img alt='' longdesc=\" \" id='x '>", "<p id=\"A&nbsp;\" lang=\"\u00a0en \">"}

// c17Expected is the independent oracle: a recursive walk of html.Parse's DOM.
func c17Expected(text string) (*adoc.Doc, error) {
	dom, err := html.Parse(strings.NewReader(text))
	if err != nil {
		return nil, err
	}
	d := adoc.NewDoc()
	var walk func(n *html.Node, into *adoc.Node)
	walk = func(n *html.Node, into *adoc.Node) {
		for c := n.FirstChild; c != nil; c = c.NextSibling {
			switch c.Type {
			case html.ElementNode:
				name := c.Data
				if i := strings.IndexByte(name, ':'); i >= 0 {
					name = name[i+1:]
				}
				e := adoc.E(name)
				for _, a := range c.Attr {
					if a.Namespace == "xmlns" || (a.Namespace == "" && (a.Key == "xmlns" || strings.HasPrefix(a.Key, "xmlns:"))) {
						continue
					}
					k := a.Key
					if i := strings.IndexByte(k, ':'); i >= 0 {
						k = k[i+1:]
					}
					e.Add(adoc.A(k, a.Val))
				}
				into.Add(e)
				walk(c, e)
			case html.TextNode:
				into.Add(adoc.T(c.Data))
			case html.CommentNode:
				into.Add(adoc.C(c.Data))
			case html.DoctypeNode:
			}
		}
	}
	walk(dom, d.Root)
	return d.Finish(), nil
}

type c17Case struct {
	Text   string `json:"text"`
	Detail string `json:"detail"`
}

func c17Check(text string) string {
	want, err := c17Expected(text)
	if err != nil {
		return ""
	}
	var cur xsel.Cursor
	var rerr error
	func() {
		defer func() {
			if r := recover(); r != nil {
				rerr = fmt.Errorf("PANIC: %v", r)
			}
		}()
		defer run.Track("ReadHtml", text)()
		cur, rerr = xsel.ReadHtml(strings.NewReader(text))
	}()
	if rerr != nil {
		return "ReadHtml failed on a document that starts with a doctype: " + rerr.Error()
	}
	b, err := impl.Read(cur)
	if err != nil {
		return "tree: " + err.Error()
	}
	if got, w := b.Doc.Canon(), want.Canon(); got != w {
		return fmt.Sprintf("tree differs from the HTML5 parse tree:\n got  %s\n want %s", got, w)
	}
	// attribute order as well (Canon sorts attributes)
	for i, n := range b.Doc.Nodes {
		if n.Kind == adoc.Elem {
			if len(n.NS) != 0 {
				return "element with namespace nodes: " + n.Describe()
			}
		}
		if (n.Kind == adoc.Elem || n.Kind == adoc.Attr) && n.Space != "" {
			return "node in a namespace: " + n.Describe()
		}
		_ = i
	}
	return ""
}

func C17(c *run.Check) {
	defer finishTriage()
	maxLen := 4
	if !c.Quick() {
		maxLen = 5
	}
	nt := len(c17Tokens)
	total, pow := 0, 1
	var offs []int
	for l := 0; l <= maxLen; l++ {
		offs = append(offs, total)
		total += pow
		pow *= nt
	}
	const chunk = 2048
	run.ParallelW((total+chunk-1)/chunk, func(w, ci int) {
		if (!triage && c.Violations() > 0) || c.TimeUp() {
			return
		}
		for idx := ci * chunk; idx < min((ci+1)*chunk, total); idx++ {
			l := 0
			for l+1 < len(offs) && idx >= offs[l+1] {
				l++
			}
			k := idx - offs[l]
			toks := make([]string, l)
			for j := l - 1; j >= 0; j-- {
				toks[j] = c17Tokens[k%nt]
				k /= nt
			}
			for _, pre := range []string{"<!doctype html>", "<!DOCTYPE html>\n<html><head></head><body>"} {
				text := pre + strings.Join(toks, "")
				c.Evaluations.Add(1)
				if msg := c17Check(text); msg != "" {
					if triage {
						tri.add(firstLine(msg), text+": "+msg)
					} else {
						c.Violation(c17Case{Text: text, Detail: msg}, fmt.Sprintf("%q: %s", text, msg))
						return
					}
				} else if idx%13 == 0 {
					c.Distinct(text)
				}
			}
		}
	})
	// a second alphabet (entities, raw-text and RCDATA elements, lists, forms,
	// table parts, uppercase and value-less attributes) at length <= 3 (thorough 4)
	{
		alpha := c17Tokens2
		l2 := 3
		if !c.Quick() {
			l2 = 4
		}
		n2 := len(alpha)
		tot, pw := 0, 1
		var off2 []int
		for l := 0; l <= l2; l++ {
			off2 = append(off2, tot)
			tot += pw
			pw *= n2
		}
		run.ParallelW((tot+chunk-1)/chunk, func(w, ci int) {
			if (!triage && c.Violations() > 0) || c.TimeUp() {
				return
			}
			for idx := ci * chunk; idx < min((ci+1)*chunk, tot); idx++ {
				l := 0
				for l+1 < len(off2) && idx >= off2[l+1] {
					l++
				}
				k := idx - off2[l]
				toks := make([]string, l)
				for j := l - 1; j >= 0; j-- {
					toks[j] = alpha[k%n2]
					k /= n2
				}
				text := "<!doctype html>" + strings.Join(toks, "")
				c.Evaluations.Add(1)
				if msg := c17Check(text); msg != "" {
					if triage {
						tri.add(firstLine(msg), text+": "+msg)
					} else {
						c.Violation(c17Case{Text: text, Detail: msg}, fmt.Sprintf("%q: %s", text, msg))
						return
					}
				} else if idx%13 == 0 {
					c.Distinct(text)
				}
			}
		})
		c.Set("second_alphabet", strings.Join(alpha, " "))
	}
	// deep and wide families, and documents without a doctype must be errors
	for _, n := range []int{10, 100, 1000, 5000} {
		deep := "<!doctype html>" + strings.Repeat("<div>", n) + "x" + strings.Repeat("</div>", n)
		wide := "<!doctype html><ul>" + strings.Repeat("<li>x</li>", n) + "</ul><!--end-->"
		for _, t := range []string{deep, wide} {
			c.Evaluations.Add(1)
			if msg := c17Check(t); msg != "" {
				c.Violation(c17Case{Text: t[:60] + "...", Detail: msg}, "deep/wide family n="+fmt.Sprint(n)+": "+firstLine(msg))
			}
		}
	}
	// long documents: every number of list items from 1 to 300, each with an
	// attribute and text, and every number of attributes from 1 to 64 on one element
	for k := 1; k <= 300; k++ {
		var sb strings.Builder
		sb.WriteString("<!doctype html><ul>")
		for i := 0; i < k; i++ {
			fmt.Fprintf(&sb, `<li id="i%d" class=c>t%d<!--%d--></li>`, i, i, i)
		}
		sb.WriteString("</ul>")
		c.Evaluations.Add(1)
		if msg := c17Check(sb.String()); msg != "" {
			c.Violation(c17Case{Text: fmt.Sprintf("<!doctype html><ul> + %d list items", k), Detail: firstLine(msg)}, fmt.Sprintf("list of %d items: %s", k, firstLine(msg)))
			break
		}
	}
	for k := 1; k <= 64; k++ {
		var sb strings.Builder
		sb.WriteString("<!doctype html><p")
		for i := 0; i < k; i++ {
			fmt.Fprintf(&sb, ` a%d="%d"`, i, i)
		}
		sb.WriteString(">t</p><p z=1>u</p>")
		c.Evaluations.Add(1)
		if msg := c17Check(sb.String()); msg != "" {
			c.Violation(c17Case{Text: sb.String(), Detail: firstLine(msg)}, fmt.Sprintf("element with %d attributes: %s", k, firstLine(msg)))
			break
		}
	}
	// documents without a doctype: the statement is about documents that start
	// with one; whether the others are rejected (the current code) or read is
	// recorded, not judged - only that the call returns
	{
		rejected, accepted := 0, 0
		for _, t := range []string{"<p>x</p>", "<html><body>x</body></html>", "", "x", "<!--c--><p>"} {
			c.Evaluations.Add(1)
			func() {
				defer func() {
					if r := recover(); r != nil {
						c.Violation(c17Case{Text: t, Detail: "panic"}, fmt.Sprintf("document without doctype %q: ReadHtml panicked: %v", t, r))
					}
				}()
				if _, err := xsel.ReadHtml(strings.NewReader(t)); err != nil {
					rejected++
				} else {
					accepted++
				}
			}()
		}
		c.Set("documents_without_doctype", fmt.Sprintf("%d rejected with an error, %d read (not judged: outside the statement)", rejected, accepted))
	}
	// bytes and declared encodings: the tree is that of html.Parse for the SAME
	// bytes - no transcoding, whatever a <meta> says and whatever the bytes are
	{
		metas := []string{"", `<meta charset="utf-8">`, `<meta charset="iso-8859-1">`, `<meta charset="windows-1251">`, `<meta charset="windows-1252">`, `<meta charset="shift_jis">`, `<meta charset="utf-16">`, `<meta charset="x-user-defined">`,
			`<meta http-equiv="Content-Type" content="text/html; charset=iso-8859-2">`, `<meta http-equiv="content-type" content="text/html;charset=koi8-r">`, `<meta charset="no-such">`}
		payloads := []string{"caf\xe9", "\xc3\xa9\xe2\x82\xac", "\x80\x9f", "\xff\xfe", "\xef\xbb\xbfx", "\xe2\x82", "a\x00b", "\xf0\x9f\x98\x80", "plain"}
		boms := []string{"", "\xef\xbb\xbf", "\xff\xfe", "\xfe\xff"}
		n := 0
		for _, bom := range boms {
			for _, m := range metas {
				for _, pl := range payloads {
					for _, text := range []string{
						bom + "<!doctype html>" + m + "<p title=\"" + pl + "\">" + pl + "<!--" + pl + "--></p>",
						bom + "<!doctype html><html><head>" + m + "<title>" + pl + "</title></head><body>" + pl + "</body></html>",
					} {
						if bom != "" {
							// a byte order mark in front of the doctype: html.Parse (which does not
							// decode) sees no doctype then; only that the call returns is judged
							func() {
								defer func() {
									if r := recover(); r != nil {
										c.Violation(c17Case{Text: text, Detail: "panic"}, fmt.Sprintf("%q: ReadHtml panicked: %v", text, r))
									}
								}()
								xsel.ReadHtml(strings.NewReader(text))
							}()
							c.Evaluations.Add(1)
							n++
							continue
						}
						c.Evaluations.Add(1)
						n++
						if msg := c17Check(text); msg != "" {
							c.Violation(c17Case{Text: text, Detail: msg}, fmt.Sprintf("%q: %s", text, msg))
						}
					}
				}
			}
		}
		c.Set("byte_and_declared_encoding_documents", n)
	}
	c.Sample("<!doctype html><table><td>t<svg></svg>")
	c.Sample(`<!doctype html><a x=1 xmlns:q="u" q:y=2 xmlns="d"><p><!--c--></html>t`)
	c.Set("token_alphabet", strings.Join(c17Tokens, " "))
	c.Set("max_tokens", maxLen)
	c.Rule = fmt.Sprintf("a doctype (bare, and with explicit html/head/body) followed by EVERY token string of length <=%d over an %d-token tag-soup alphabet (implied elements, void elements, tables, foreign content, attributes with xmlns declarations and prefixes, comments, text, content after </html> and </body>): cursor tree compared node by node with an independent recursive walk of golang.org/x/net/html's DOM for the same bytes; deep (<=5000) and wide families; every list length 1-300 and every attribute count 1-64; 4 byte-order marks x 11 <meta> charset declarations x 9 payloads of high, invalid and multi-byte bytes in text, attribute values and comments (the tree is that of html.Parse for the same bytes: no transcoding); documents without a doctype only have to return; non-trivial = distinct sampled document", maxLen, nt)
	c.Assume("golang.org/x/net/html.Parse is the HTML5 parsing algorithm the statement names")
}

func init() {
	Registry["C17"] = Prop{"exploration", C17}
	replayers["C17"] = func(raw json.RawMessage) string {
		var cs c17Case
		json.Unmarshal(raw, &cs)
		return c17Check(cs.Text)
	}
}
