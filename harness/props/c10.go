package props

import (
	"fmt"
	"os"
	"os/exec"
	"runtime"
	"runtime/debug"
	"strings"
	"sync"

	"github.com/ChrisTrenkamp/xsel/store"

	"xv/adoc"
	"xv/impl"
	"xv/run"
)

// ---- C10: the in-memory store honours the Cursor contract --------------------
//
// Explicit-state breadth-first search over the Parser-contract automaton. A
// state is a legal event prefix (canonicalised by dropping no-op surplus end
// events); every transition replays prefix+event(+closing ends) into a fresh
// real store.CreateInMemory through a scripted Parser, so every model trace
// is validated against the implementation.

type c10Frame struct {
	phase    int // 0: namespaces allowed, 1: attributes only, 2: children
	prefixes string
	attrs    string
}

type c10State struct {
	evs   []impl.Event
	stack []c10Frame // open elements (root excluded)
}

var c10Alphabet = []impl.Event{
	{K: impl.EvText, Value: "t"},
	{K: impl.EvStart, Local: "a"},
	{K: impl.EvEnd},
	{K: impl.EvAttr, Local: "x", Value: "1"},
	{K: impl.EvNS, Local: "p", Value: adoc.URI_U},
	{K: impl.EvStart, Local: "b"},
	{K: impl.EvComment, Value: "c"},
	{K: impl.EvPI, Local: "t", Value: "d"},
	{K: impl.EvAttr, Local: "y", Value: "2"},
	{K: impl.EvNS, Local: "p", Value: adoc.URI_V},
	{K: impl.EvNS, Local: "", Value: adoc.URI_D},
	{K: impl.EvNS, Local: "q", Value: adoc.URI_U},
	{K: impl.EvNS, Local: "", Value: ""},
	{K: impl.EvNS, Local: "p", Value: ""}, // an ordinary namespace node with an empty value (overrides the inherited p), not an un-declaration
}

// c10Next applies event e to state s if the Parser contract allows it.
func c10Next(s *c10State, e impl.Event) (*c10State, bool) {
	n := &c10State{evs: append(append([]impl.Event{}, s.evs...), e), stack: append([]c10Frame{}, s.stack...)}
	top := len(n.stack) - 1
	switch e.K {
	case impl.EvEnd:
		if top >= 0 {
			n.stack = n.stack[:top]
		}
		return n, true
	case impl.EvNS:
		if top < 0 || n.stack[top].phase > 0 {
			return nil, false
		}
		// a prefix may be declared again on the same element (the later
		// declaration replaces the earlier one - the XML adaptor itself does
		// this for the implicit xml binding), but not the very same event twice
		key := "|" + e.Local + "=" + e.Value + "|"
		if strings.Contains(n.stack[top].prefixes, key) || strings.Count(n.stack[top].prefixes, "|"+e.Local+"=") >= 2 {
			return nil, false
		}
		// the default namespace is declared or un-declared at most once per
		// element (declaring it after xmlns="" on the same element has no meaning)
		if e.Local == "" && strings.Contains(n.stack[top].prefixes, "|=") {
			return nil, false
		}
		n.stack[top].prefixes += key
		return n, true
	case impl.EvAttr:
		if top < 0 || n.stack[top].phase > 1 {
			return nil, false
		}
		key := "|" + e.Local + "|"
		if strings.Contains(n.stack[top].attrs, key) {
			return nil, false
		}
		n.stack[top].attrs += key
		n.stack[top].phase = 1
		return n, true
	case impl.EvStart:
		if top >= 0 {
			n.stack[top].phase = 2
		}
		n.stack = append(n.stack, c10Frame{})
		return n, true
	default:
		if top >= 0 {
			n.stack[top].phase = 2
		}
		return n, true
	}
}

func c10Key(s *c10State) string {
	// drop surplus end events (they are no-ops of the model)
	var sb strings.Builder
	depth := 0
	for _, e := range s.evs {
		if e.K == impl.EvEnd {
			if depth == 0 {
				continue
			}
			depth--
		}
		if e.K == impl.EvStart {
			depth++
		}
		sb.WriteString(e.String())
		sb.WriteByte(';')
	}
	// ... except a surplus end at the very end of the prefix: that state is kept
	// apart and expanded once, so that every event is also replayed directly
	// after a surplus end (that surplus ends are no-ops is what is being
	// verified, it must not be assumed by the canonicalisation)
	if n := len(s.evs); n > 0 && s.evs[n-1].K == impl.EvEnd && len(s.stack) == 0 {
		d := 0
		for _, e := range s.evs[:n-1] {
			if e.K == impl.EvStart {
				d++
			} else if e.K == impl.EvEnd && d > 0 {
				d--
			}
		}
		if d == 0 {
			sb.WriteString("SURPLUS-END;")
		}
	}
	return sb.String()
}

type c10Replay struct {
	Events []impl.Event
	Trace  string
}

func evString(evs []impl.Event) string {
	parts := make([]string, len(evs))
	for i, e := range evs {
		parts[i] = e.String()
	}
	return strings.Join(parts, " ")
}

// storeFrames counts frames of the store package on the current goroutine.
func storeFrames() int {
	pcs := make([]uintptr, 4096)
	n := runtime.Callers(2, pcs)
	frames := runtime.CallersFrames(pcs[:n])
	cnt := 0
	for {
		f, more := frames.Next()
		if strings.Contains(f.Function, "xsel/store.") {
			cnt++
		}
		if !more {
			break
		}
	}
	return cnt
}

// C10CheckTrace runs one event trace through the real store and checks every
// invariant of the property. It returns "" or a description of the failure.
func C10CheckTrace(evs []impl.Event) string {
	model := impl.FromEvents(evs)
	sp := impl.NewScripted(evs)
	// stack probe: call depth at each Pull relative to the first Pull, against
	// the number of open elements (symbolised only when the bound is exceeded)
	open := 0
	worst := ""
	pcs := make([]uintptr, 512)
	base := -1
	sp.OnPull = func(i int) {
		d := runtime.Callers(0, pcs)
		if base < 0 {
			base = d
		}
		// generous: 4 frames + 4 per open element
		if d-base > 4+4*(open+1) && worst == "" {
			worst = fmt.Sprintf("stack: call depth grew by %d frames (%d of them in package store) at event %d with %d open elements (bound %d): stack use grows with the number of events, not with nesting depth", d-base, storeFrames(), i, open, 4+4*(open+1))
		}
		if i < len(evs) {
			switch evs[i].K {
			case impl.EvStart:
				open++
			case impl.EvEnd:
				if open > 0 {
					open--
				}
			}
		}
	}
	root, err := func() (*store.InMemory, error) {
		defer run.Track("CreateInMemory", "event stream "+evString(evs[:min(len(evs), 40)]))()
		return store.CreateInMemory(sp)
	}()
	if err != nil {
		return "CreateInMemory returned an error for a conforming stream: " + err.Error()
	}
	if worst != "" {
		return worst
	}
	return C10CheckTree(root, model)
}

// C10CheckTree checks the Cursor contract on a built tree against the model.
func C10CheckTree(root store.Cursor, model *adoc.Doc) string {
	if root == nil {
		return "nil root"
	}
	b, err := impl.Read(root)
	if err != nil {
		return "ownership: " + err.Error()
	}
	if got, want := b.Doc.Canon(), model.Canon(); got != want {
		return fmt.Sprintf("structure differs from the event stream's nesting:\n got  %s\n want %s", got, want)
	}
	// Pos: root 0, strictly increasing in document order (element < its
	// namespace nodes < its attributes < its children < everything after)
	if root.Pos() != 0 {
		return fmt.Sprintf("root Pos() = %d", root.Pos())
	}
	prev := -1
	for i, n := range b.Doc.Nodes {
		c := b.ToCur[n]
		p := c.Pos()
		if i > 0 && p == 0 {
			return "Pos() == 0 for non-root node " + n.Describe()
		}
		if p <= prev {
			return fmt.Sprintf("Pos() not strictly increasing in document order: %s has Pos %d after Pos %d", n.Describe(), p, prev)
		}
		prev = p
	}
	// Parent links
	for n, c := range b.ToCur {
		if n.Kind == adoc.Root {
			continue
		}
		if c.Parent() != b.ToCur[n.Parent] {
			pp := c.Parent()
			desc := "nil"
			if pp != nil {
				if pn, ok := b.ToNode[pp]; ok {
					desc = pn.Describe()
				} else {
					desc = fmt.Sprintf("a cursor outside the tree (pos %d)", pp.Pos())
				}
			}
			return fmt.Sprintf("Parent() of %s listed by %s is %s", n.Describe(), n.Parent.Describe(), desc)
		}
	}
	// namespace node order among list = ascending checked above; values checked by Canon
	return ""
}

func C10(c *run.Check) {
	c.Rule = "explicit-state BFS over the Parser-contract automaton (14-event alphabet); state = legal event prefix canonicalised by dropping surplus end events except one at the very end (so every event is also replayed directly after a surplus end); every transition replays prefix+event+closing ends into a fresh store.CreateInMemory; non-trivial = distinct resulting model tree"
	maxDepth := 6
	if !c.Quick() {
		maxDepth = 8
	}
	if s := os.Getenv("C10_DEPTH"); s != "" {
		fmt.Sscanf(s, "%d", &maxDepth)
	}
	seen := map[string]bool{"": true}
	frontier := []*c10State{{}}
	c.States.Add(1)
	completed := 0
	for depth := 1; depth <= maxDepth; depth++ {
		if c.TimeUp() {
			break
		}
		type succ struct {
			s   *c10State
			key string
		}
		succs := make([][]succ, len(frontier))
		last := depth == maxDepth // no further level: successors are only counted, not kept
		run.Parallel(len(frontier), func(i int) {
			if c.Violations() > 0 {
				return
			}
			s := frontier[i]
			for _, e := range c10Alphabet {
				n, ok := c10Next(s, e)
				if !ok {
					continue
				}
				c.Transitions.Add(1)
				c.Evaluations.Add(1)
				c.Traces.Add(1)
				// the contract requires every element to be terminated
				trace := append([]impl.Event{}, n.evs...)
				for range n.stack {
					trace = append(trace, impl.Event{K: impl.EvEnd})
				}
				if msg := C10CheckTrace(trace); msg != "" {
					c.Violation(c10Replay{Events: trace, Trace: evString(trace)}, evString(trace)+": "+msg)
					return
				}
				if last {
					succs[i] = append(succs[i], succ{nil, c10Key(n)})
				} else {
					succs[i] = append(succs[i], succ{n, c10Key(n)})
				}
			}
		})
		if c.Violations() > 0 {
			break
		}
		var next []*c10State
		for li, l := range succs {
			for _, x := range l {
				if !seen[x.key] {
					seen[x.key] = true
					c.States.Add(1)
					c.Distinct(x.key)
					if x.s != nil {
						next = append(next, x.s)
						if len(x.s.evs) == 5 {
							c.Sample(evString(x.s.evs))
						}
					}
				}
			}
			succs[li] = nil
		}
		frontier = next
		completed = depth
	}
	c.Set("max_depth_completed", completed)
	c.Set("alphabet", evString(c10Alphabet))
	if completed < maxDepth {
		c.Exhaustive = false
	}
	// wide elements: 0..9 namespace declarations x 0..9 attributes x 4 kinds of
	// content, below a parent declaring 0 or 7 prefixes (among them xml, XML, xmlx) and between siblings (the
	// BFS alphabet has only two attribute names and three prefixes)
	if c.Violations() == 0 {
		type wj struct{ k, m, kind, par int }
		var jobs []wj
		for k := 0; k <= 9; k++ {
			for m := 0; m <= 9; m++ {
				for kind := 0; kind < 4; kind++ {
					for par := 0; par < 2; par++ {
						jobs = append(jobs, wj{k, m, kind, par})
					}
				}
			}
		}
		run.ParallelW(len(jobs), func(_, i int) {
			if c.Violations() > 0 {
				return
			}
			j := jobs[i]
			end := impl.Event{K: impl.EvEnd}
			tr := []impl.Event{{K: impl.EvStart, Local: "r"}}
			if j.par == 1 {
				for q := 0; q < 3; q++ {
					tr = append(tr, impl.Event{K: impl.EvNS, Local: fmt.Sprint("i", q), Value: fmt.Sprint("urn:i", q)})
				}
				// prefixes with special-looking spellings are inherited like any other
				// (a parser need not repeat the xml binding on every element)
				tr = append(tr, impl.Event{K: impl.EvNS, Local: "xml", Value: "http://www.w3.org/XML/1998/namespace"}, impl.Event{K: impl.EvNS, Local: "XML", Value: "urn:upper"}, impl.Event{K: impl.EvNS, Local: "xmlx", Value: "urn:xmlx"}, impl.Event{K: impl.EvNS, Local: "é", Value: "urn:e"})
			}
			tr = append(tr, impl.Event{K: impl.EvStart, Local: "before"}, end, impl.Event{K: impl.EvStart, Local: "w"})
			for q := 0; q < j.k; q++ {
				tr = append(tr, impl.Event{K: impl.EvNS, Local: fmt.Sprint("n", q), Value: fmt.Sprint("urn:n", q)})
			}
			for q := 0; q < j.m; q++ {
				tr = append(tr, impl.Event{K: impl.EvAttr, Local: fmt.Sprint("a", q), Value: fmt.Sprint(q)})
			}
			switch j.kind {
			case 1:
				tr = append(tr, impl.Event{K: impl.EvText, Value: "t"})
			case 2:
				tr = append(tr, impl.Event{K: impl.EvStart, Local: "c"}, impl.Event{K: impl.EvAttr, Local: "x", Value: "1"}, end, impl.Event{K: impl.EvComment, Value: "k"})
			case 3:
				tr = append(tr, impl.Event{K: impl.EvStart, Local: "c"}, impl.Event{K: impl.EvStart, Local: "d"}, end, end, impl.Event{K: impl.EvText, Value: "t"}, impl.Event{K: impl.EvStart, Local: "e"}, end)
			}
			tr = append(tr, end, impl.Event{K: impl.EvStart, Local: "after"}, impl.Event{K: impl.EvAttr, Local: "x", Value: "2"}, end, end)
			c.Transitions.Add(1)
			c.Evaluations.Add(1)
			c.Traces.Add(1)
			if msg := C10CheckTrace(tr); msg != "" {
				c.Violation(c10Replay{Events: tr, Trace: evString(tr)}, evString(tr)+": "+msg)
			}
		})
		c.Set("wide_element_traces", len(jobs))
	}
	// long documents: EVERY number of items from 1 to 1100 (and a few larger
	// ones) in three shapes, with the full tree comparison - node identity, Pos,
	// Parent, content - so that nothing that depends on how many nodes a document
	// has (a buffer, slab or table of some fixed size) goes unnoticed
	if c.Violations() == 0 {
		type lj struct{ shape, k int }
		var jobs []lj
		maxK := 1100
		for k := 1; k <= maxK; k++ {
			for shape := 0; shape < 3; shape++ {
				if shape == 2 && k > 600 {
					continue
				}
				jobs = append(jobs, lj{shape, k})
			}
		}
		for _, k := range []int{2049, 4097, 65537} {
			jobs = append(jobs, lj{0, k}, lj{1, k})
		}
		run.ParallelW(len(jobs), func(_, i int) {
			if c.Violations() > 0 || c.TimeUp() {
				return
			}
			tr := c10LongTrace(jobs[i].shape, jobs[i].k)
			c.Transitions.Add(1)
			c.Evaluations.Add(1)
			c.Traces.Add(1)
			if msg := C10CheckTrace(tr); msg != "" {
				if len(msg) > 600 {
					msg = msg[:600] + " ..."
				}
				c.Violation(map[string]interface{}{"long": jobs[i].shape, "items": jobs[i].k}, fmt.Sprintf("long document, shape %d (%s), %d items: %s", jobs[i].shape, []string{"<i a=..>text</i> items", "text/comment/PI/empty-element leaves", "one element with k attributes"}[jobs[i].shape], jobs[i].k, msg))
			}
		})
		c.Set("long_document_traces", len(jobs))
	}
	// large flat / deep streams in a subprocess (a stack overflow kills the process)
	if c.Violations() == 0 {
		sizes := []int{1000, 100000, 1000000}
		if !c.Quick() {
			sizes = append(sizes, 3000000)
		}
		for _, n := range sizes {
			for _, shape := range []string{"flat", "siblings", "deep"} {
				if shape == "deep" && n > 100000 {
					continue
				}
				out, err := exec.Command(os.Args[0], "c10-stream", shape, fmt.Sprint(n)).CombinedOutput()
				c.Evaluations.Add(1)
				c.Traces.Add(1)
				if err != nil {
					msg := strings.TrimSpace(string(out))
					if len(msg) > 300 {
						msg = msg[:300]
					}
					c.Violation(map[string]interface{}{"stream": shape, "events": n}, fmt.Sprintf("%s stream of %d events: process failed (%v): %s", shape, n, err, msg))
					break
				}
			}
		}
		c.Set("large_streams", fmt.Sprint(sizes, " x {flat text, sibling elements, nested(<=1e5)} under a 64 MB goroutine stack limit"))
	}
	c.Assume("event alphabet of 14 events (plus the wide-element family); a prefix is declared at most twice and an attribute name at most once per element; namespace and attribute events only inside elements")
}

// c10LongTrace builds a document of k items: shape 0 - k elements with an
// attribute and a text child; shape 1 - k leaves of rotating kinds (text is
// separated by other kinds, adjacent text events never occur); shape 2 - one
// element with k attributes followed by a sibling.
func c10LongTrace(shape, k int) []impl.Event {
	end := impl.Event{K: impl.EvEnd}
	tr := []impl.Event{{K: impl.EvStart, Local: "r"}}
	switch shape {
	case 0:
		for i := 0; i < k; i++ {
			tr = append(tr, impl.Event{K: impl.EvStart, Local: "i"}, impl.Event{K: impl.EvAttr, Local: "a", Value: fmt.Sprint(i)}, impl.Event{K: impl.EvText, Value: fmt.Sprint("v", i)}, end)
		}
	case 1:
		for i := 0; i < k; i++ {
			switch i % 4 {
			case 0:
				tr = append(tr, impl.Event{K: impl.EvText, Value: fmt.Sprint("t", i)})
			case 1:
				tr = append(tr, impl.Event{K: impl.EvComment, Value: fmt.Sprint("c", i)})
			case 2:
				tr = append(tr, impl.Event{K: impl.EvPI, Local: "p", Value: fmt.Sprint(i)})
			case 3:
				tr = append(tr, impl.Event{K: impl.EvStart, Local: "e"}, end)
			}
		}
	case 2:
		tr = append(tr, impl.Event{K: impl.EvStart, Local: "w"})
		for i := 0; i < k; i++ {
			tr = append(tr, impl.Event{K: impl.EvAttr, Local: fmt.Sprint("a", i), Value: fmt.Sprint(i)})
		}
		tr = append(tr, impl.Event{K: impl.EvText, Value: "t"}, end, impl.Event{K: impl.EvStart, Local: "after"}, impl.Event{K: impl.EvAttr, Local: "x", Value: "1"}, end)
	}
	return append(tr, end)
}

// C10Stream is the subprocess body for large streams.
func C10Stream(shape string, n int) int {
	debug.SetMaxStack(64 << 20)
	var evs []impl.Event
	switch shape {
	case "flat":
		for i := 0; i < n; i++ {
			evs = append(evs, impl.Event{K: impl.EvText, Value: "t"})
		}
	case "siblings":
		evs = append(evs, impl.Event{K: impl.EvStart, Local: "r"})
		for i := 0; i < n/2; i++ {
			evs = append(evs, impl.Event{K: impl.EvStart, Local: "a"}, impl.Event{K: impl.EvEnd})
		}
		evs = append(evs, impl.Event{K: impl.EvEnd})
	case "deep":
		for i := 0; i < n/2; i++ {
			evs = append(evs, impl.Event{K: impl.EvStart, Local: "a"})
		}
		for i := 0; i < n/2; i++ {
			evs = append(evs, impl.Event{K: impl.EvEnd})
		}
	}
	var wg sync.WaitGroup
	rc := 0
	wg.Add(1)
	go func() {
		defer wg.Done()
		root, err := store.CreateInMemory(impl.NewScripted(evs))
		if err != nil {
			fmt.Println("error:", err)
			rc = 1
			return
		}
		// count nodes iteratively
		cnt := 0
		stack := []store.Cursor{root}
		for len(stack) > 0 {
			x := stack[len(stack)-1]
			stack = stack[:len(stack)-1]
			cnt++
			stack = append(stack, x.Children()...)
		}
		want := n + 1
		if shape != "flat" {
			want = n/2 + 1
			if shape == "siblings" {
				want++
			}
		}
		if cnt != want {
			fmt.Printf("node count %d, want %d\n", cnt, want)
			rc = 1
		}
	}()
	wg.Wait()
	return rc
}

// C10Replay re-executes a stored trace.
func C10Replay(evs []impl.Event) string { return C10CheckTrace(evs) }
