package props

import (
	"encoding/json"
	"fmt"
	"sort"
	"strings"
	"unsafe"

	"github.com/ChrisTrenkamp/xsel"
	"github.com/ChrisTrenkamp/xsel/store"

	"xv/adoc"
	"xv/impl"
	"xv/run"
	"xv/snap"
)

// ---- C13: queries are pure and deterministic --------------------------------------
//
// Explicit-state BFS over call histories. A state is what the caller holds:
// two node-set slots (possibly re-sliced so that spare capacity exists), the
// compiled expression objects, the binding maps and the document. Transitions
// are real calls; live objects cannot be cloned, so a successor is produced by
// replaying the shortest path to its predecessor on a fresh world and making
// one more call.

var c13Menu = []string{
	"//b", "//*/ancestor::*", "$v | $w", "$v | //c", "$v[1]", "$v/..", "(//b)[last()]", "count($v)", "$w/preceding::*", "$v[last()] | $w[1]", "//c/ancestor-or-self::* | $v",
	"$w | $v", "$v/following-sibling::*", "string($w)", "//*[. = $v]", "($v | $w)[2]", "$v//*", "sum($w)", "$w[position() > 1]", "$v | $v",
	// every node test applied directly to the caller's variable (the self axis passes its input through)
	"$v/self::b", "$v/self::*", "$v/self::node()", "$v/self::p:b", "$v/self::*:c", "$v/self::p:*", "$v/self::text()", "$w/self::c", "$v/.", "$v/self::c/..", "$v[self::b]", "$v/self::b[1]", "count($v/self::c)",
	"$v/self::comment()", "$v/self::processing-instruction()", "$v/self::processing-instruction('t')", "$v/@*", "$v/namespace::*", "$v/self::r",
	// steps that gather the tree's own child/attribute/namespace lists of several context nodes
	"//*/@*", "(/* | //b)/@*", "(/* | /*/c)/@*", "(/*/b[1] | //d)/@*", "(/*/b[1] | /*/c)/node()", "(/*/b[1] | //d)/namespace::*", "//*/namespace::*", "//*/*", "//*/node()", "//b/preceding-sibling::node()", "//c/following-sibling::node()", "//*/@*/..", "//b/ancestor::*/@*", "$v/*", "$v/node()",
	// a call to the one function of the caller's own function table
	"$v[one()]", "count($w) + one()",
	// unions with an empty operand (nothing to merge: the non-empty operand must still not be touched)
	"$v | //nosuch", "//nosuch | $v", "count($v | $v[false()])",
}

var c13Ctx = []string{"/", "/0/0", "/0/@0"}

func c13Doc(k int) *adoc.Doc {
	d := adoc.NewDoc()
	var r *adoc.Node
	if k == 0 {
		// lists of 3 and 5 entries: the store builds them with append, so their
		// backing arrays have spare capacity a careless append can write into
		b1 := adoc.E("b", adoc.T("1"), adoc.E("c", adoc.T("2")), adoc.C("k"))
		b1.Add(adoc.A("i", "1"))
		b1.Add(adoc.A("j", "2"))
		b1.Add(adoc.A("k", "3"))
		c2 := adoc.E("c", adoc.T("3"))
		c2.Add(adoc.A("m", "6"))
		d5 := adoc.E("d")
		d5.Add(adoc.A("n", "5"))
		r = adoc.E("r", b1, c2, adoc.E("b", adoc.E("b", adoc.T("4"))), adoc.T("5"), d5)
		r.Declare("p", adoc.URI_U)
		r.Declare("q", adoc.URI_V)
		r.Declare("", adoc.URI_D)
		r.Add(adoc.A("y", "8"))
		r.Add(adoc.A("z", "7"))
	} else {
		r = adoc.E("r", adoc.E("c"), adoc.E("b", adoc.E("c", adoc.E("b"))), adoc.C("x"), adoc.E("b"))
		r.Declare("p", adoc.URI_U)
	}
	r.Add(adoc.A("x", "9"))
	d.Root.Add(r)
	return d.Finish()
}

// c13Op is one call of a history.
type c13Op struct {
	Kind  string `json:"kind"`  // exec | unmarshal-slice | unmarshal-struct | rebuild
	Expr  int    `json:"expr"`  // menu index
	Ctx   int    `json:"ctx"`   // context index
	Store int    `json:"store"` // -1: discard result; 0/1: store into slot
	Trunc bool   `json:"trunc"` // keep only the first element (spare capacity remains)
}

func (o c13Op) String() string {
	switch o.Kind {
	case "exec":
		s := fmt.Sprintf("Exec(%q from %s)", c13Menu[o.Expr], c13Ctx[o.Ctx])
		if o.Store >= 0 {
			s += fmt.Sprintf(" -> slot%d", o.Store)
			if o.Trunc {
				s += "[:1]"
			}
		}
		return s
	case "rebuild":
		return fmt.Sprintf("BuildExpr(%q) replaces the compiled object", c13Menu[o.Expr])
	case "exec-nobind":
		return fmt.Sprintf("Exec(%q from %s) without bindings", c13Menu[o.Expr], c13Ctx[o.Ctx])
	}
	return o.Kind
}

// c13World is a fresh set of real objects.
type c13World struct {
	b      *impl.Binding
	slots  [2]xsel.NodeSet
	exprs  []*xsel.Grammar
	nsMap  map[string]string
	varMap map[xsel.XmlName]xsel.Result
	fnMap  map[xsel.XmlName]xsel.Function
}

func newC13World(doc int) *c13World {
	b, err := impl.Bind(c13Doc(doc))
	if err != nil {
		panic(err)
	}
	w := &c13World{b: b, nsMap: map[string]string{"p": adoc.URI_U}, varMap: map[xsel.XmlName]xsel.Result{}}
	// a caller-owned function table with one function (the menu calls it)
	w.fnMap = map[xsel.XmlName]xsel.Function{{Local: "one"}: func(xsel.Context, ...xsel.Result) (xsel.Result, error) { return xsel.Number(1), nil }}
	for _, e := range c13Menu {
		g := xsel.MustBuildExpr(e)
		w.exprs = append(w.exprs, &g)
	}
	// initial slots: all elements (r, b, c mixed) in reverse order with spare capacity; all c elements
	var bs, cs []store.Cursor
	for _, n := range b.Doc.Nodes {
		if n.Kind == adoc.Elem {
			bs = append(bs, b.ToCur[n])
		}
		if n.Kind == adoc.Elem && n.Local == "c" {
			cs = append(cs, b.ToCur[n])
		}
	}
	s0 := make(xsel.NodeSet, 0, len(bs)+3)
	for i := len(bs) - 1; i >= 0; i-- {
		s0 = append(s0, bs[i])
	}
	w.slots[0] = s0
	w.slots[1] = append(make(xsel.NodeSet, 0, len(cs)+2), cs...)
	w.settings()
	return w
}

// settings installs caller-owned maps (as the command line tool does).
func (w *c13World) settings() []xsel.ContextApply {
	// the caller binds its two slots as $v and $w before the call
	w.varMap[xsel.XmlName{Local: "v"}] = w.slots[0]
	w.varMap[xsel.XmlName{Local: "w"}] = w.slots[1]
	return []xsel.ContextApply{func(c *xsel.ContextSettings) {
		c.NamespaceDecls = w.nsMap
		c.Variables = w.varMap
		c.FunctionLibrary = w.fnMap
	}}
}

func (w *c13World) ids(ns xsel.NodeSet) []int {
	out := make([]int, len(ns))
	for i, c := range ns {
		if n, ok := w.b.ToNode[c]; ok {
			out[i] = n.ID
		} else {
			out[i] = -1
		}
	}
	return out
}

// key is the canonical form of the caller-visible state.
func (w *c13World) key() string {
	return fmt.Sprintf("s0=%v/%d s1=%v/%d", w.ids(w.slots[0]), cap(w.slots[0]), w.ids(w.slots[1]), cap(w.slots[1]))
}

// fingerprint of everything the caller can observe and that must not change:
// the document tree, the full-capacity views of both slots, the compiled
// expressions and the binding maps.
type c13Print struct {
	tree    uint64
	slots   [2]string
	exprs   []uint64
	ns      string
	varKey  string
	globals map[string]uint64 // package-level variables of the library (overlay builds only)
}

func (w *c13World) opaque() map[unsafe.Pointer]int {
	m := map[unsafe.Pointer]int{}
	for c, n := range w.b.ToNode {
		if p, ok := c.(*store.InMemory); ok {
			m[unsafe.Pointer(p)] = n.ID
		}
	}
	return m
}

func (w *c13World) print(withExprs bool) c13Print {
	var p c13Print
	h := snap.New()
	root := w.b.Root
	p.tree = h.Hash(&root)
	for i := range w.slots {
		full := w.slots[i][:cap(w.slots[i])]
		p.slots[i] = fmt.Sprintf("%v len=%d", w.idsWithNil(full), len(w.slots[i]))
	}
	if withExprs {
		ho := snap.New()
		ho.Opaque = w.opaque()
		for _, g := range w.exprs {
			p.exprs = append(p.exprs, ho.Hash(g))
		}
	}
	var ks []string
	for k, v := range w.nsMap {
		ks = append(ks, k+"="+v)
	}
	sort.Strings(ks)
	p.ns = strings.Join(ks, ",")
	var vs []string
	for k := range w.varMap {
		vs = append(vs, k.String())
	}
	sort.Strings(vs)
	var fs []string
	for k := range w.fnMap {
		fs = append(fs, "fn:"+k.String())
	}
	sort.Strings(fs)
	p.varKey = strings.Join(vs, ",") + ";" + strings.Join(fs, ",")
	return p
}

func (w *c13World) idsWithNil(ns xsel.NodeSet) []int {
	out := make([]int, len(ns))
	for i, c := range ns {
		if c == nil {
			out[i] = -9
		} else if n, ok := w.b.ToNode[c]; ok {
			out[i] = n.ID
		} else {
			out[i] = -1
		}
	}
	return out
}

func (a c13Print) diff(b c13Print) string {
	if a.tree != b.tree {
		return "the document tree changed"
	}
	for i := range a.slots {
		if a.slots[i] != b.slots[i] {
			return fmt.Sprintf("the caller's node-set in slot%d changed (full capacity view): %s -> %s", i, a.slots[i], b.slots[i])
		}
	}
	for i := range a.exprs {
		if i < len(b.exprs) && a.exprs[i] != b.exprs[i] {
			return fmt.Sprintf("the compiled expression %q changed", c13Menu[i])
		}
	}
	if a.ns != b.ns || a.varKey != b.varKey {
		return fmt.Sprintf("the caller's binding maps changed: namespaces %s -> %s; variables;functions %s -> %s", a.ns, b.ns, a.varKey, b.varKey)
	}
	return ""
}

// apply performs one call on the world and returns its outcome.
func (w *c13World) apply(o c13Op) (Outcome, string) {
	switch o.Kind {
	case "rebuild":
		g, err := xsel.BuildExpr(c13Menu[o.Expr])
		if err != nil {
			return Outcome{}, "BuildExpr failed: " + err.Error()
		}
		w.exprs[o.Expr] = &g
		return Outcome{}, ""
	case "unmarshal-slice":
		var out []string
		err, pan := callUnmarshal(w.slots[0], &out, w.settings())
		if pan != "" {
			return Outcome{Panic: pan}, ""
		}
		return Outcome{Type: "string", Str: fmt.Sprint(out, err)}, ""
	case "unmarshal-struct":
		var out struct {
			N string   `xsel:"name()"`
			K []string `xsel:"$v | $w"`
			U string
		}
		out.U = "keep"
		if len(w.slots[1]) == 0 {
			return Outcome{Type: "string", Str: "empty"}, ""
		}
		err, pan := callUnmarshal(xsel.NodeSet{w.slots[1][0]}, &out, w.settings())
		if pan != "" {
			return Outcome{Panic: pan}, ""
		}
		return Outcome{Type: "string", Str: fmt.Sprint(out, err)}, ""
	}
	ctx := w.b.ToCur[w.b.Doc.Resolve(c13Ctx[o.Ctx])]
	if o.Kind == "exec-nobind" {
		out := ExecImpl(w.b, ctx, w.exprs[o.Expr], nil)
		if out.Err {
			out.ErrText = ""
		}
		return out, ""
	}
	res := ExecImpl(w.b, ctx, w.exprs[o.Expr], w.settings())
	if o.Store >= 0 && res.Type == "node-set" && !res.Err {
		// re-run to obtain the real slice (ExecImpl converts); store the caller's copy
		r, err := xsel.Exec(ctx, w.exprs[o.Expr], w.settings()...)
		if err == nil {
			if ns, ok := r.(xsel.NodeSet); ok {
				if o.Trunc && len(ns) > 1 {
					ns = ns[:1]
				}
				w.slots[o.Store] = ns
			}
		}
	}
	return res, ""
}

func c13Ops() []c13Op {
	var ops []c13Op
	for e := range c13Menu {
		for ctx := range c13Ctx {
			ops = append(ops, c13Op{Kind: "exec", Expr: e, Ctx: ctx, Store: -1})
		}
		// results that are node-sets may be kept by the caller (first 12 menu
		// entries: they already produce every slot shape - ascending, descending,
		// single, empty, truncated with spare capacity)
		if e >= 12 {
			continue
		}
		ops = append(ops, c13Op{Kind: "exec", Expr: e, Ctx: 0, Store: 0}, c13Op{Kind: "exec", Expr: e, Ctx: 0, Store: 1}, c13Op{Kind: "exec", Expr: e, Ctx: 0, Store: 0, Trunc: true}, c13Op{Kind: "exec", Expr: e, Ctx: 1, Store: 1, Trunc: true})
	}
	ops = append(ops, c13Op{Kind: "unmarshal-slice"}, c13Op{Kind: "unmarshal-struct"}, c13Op{Kind: "rebuild", Expr: 2}, c13Op{Kind: "rebuild", Expr: 6})
	// the same compiled expressions executed WITHOUT any binding: what an earlier
	// call bound must not be visible (unbound variable / prefix -> error)
	for _, e := range []int{2, 4, 7, 34} {
		ops = append(ops, c13Op{Kind: "exec-nobind", Expr: e, Ctx: 0, Store: -1})
	}
	return ops
}

type c13Replay struct {
	Doc     int      `json:"doc"`
	History []c13Op  `json:"history"`
	Trace   []string `json:"trace"`
	Detail  string   `json:"detail"`
}

// c13Run replays a history on a fresh world, checking purity after every call
// and history-independence of the last call. memo maps (call, argument values)
// to the pristine outcome.
func c13Run(doc int, hist []c13Op, memo *c13Memo, checkAll bool) (*c13World, string) {
	w := newC13World(doc)
	for i, o := range hist {
		last := i == len(hist)-1
		var before c13Print
		if last || checkAll {
			before = w.print(true)
		}
		argKey := fmt.Sprintf("%d|%s|%d|%d|%v|%v", doc, o.Kind, o.Expr, o.Ctx, w.ids(w.slots[0]), w.ids(w.slots[1]))
		s0, s1 := w.slots[0], w.slots[1]
		out, msg := w.apply(o)
		if msg != "" {
			return w, msg
		}
		if out.Panic != "" || IsPanicErr(out) {
			return w, fmt.Sprintf("call %d (%s) panicked: %s", i, o, out)
		}
		if last || checkAll {
			// compare with the slots as they were before the call (a stored result
			// legitimately replaces a slot afterwards)
			ns0, ns1 := w.slots[0], w.slots[1]
			w.slots[0], w.slots[1] = s0, s1
			after := w.print(true)
			w.slots[0], w.slots[1] = ns0, ns1
			if o.Kind == "rebuild" {
				after.exprs[o.Expr] = before.exprs[o.Expr]
			}
			if d := before.diff(after); d != "" {
				return w, fmt.Sprintf("after call %d (%s): %s", i, o, d)
			}
			if o.Kind != "rebuild" && memo != nil {
				if prev, ok := memo.get(argKey); ok {
					if prev != out.String() {
						return w, fmt.Sprintf("call %d (%s) returned %s, but the same call with the same argument values returned %s in another history: the result depends on what ran before", i, o, out, prev)
					}
				} else {
					memo.put(argKey, out.String())
				}
			}
			if o.Kind == "exec" {
				// a reused compiled expression is equivalent to a freshly built one
				fresh := xsel.MustBuildExpr(c13Menu[o.Expr])
				ctx := w.b.ToCur[w.b.Doc.Resolve(c13Ctx[o.Ctx])]
				w.slots[0], w.slots[1] = s0, s1
				fo := ExecImpl(w.b, ctx, &fresh, w.settings())
				w.slots[0], w.slots[1] = ns0, ns1
				if fo.String() != out.String() {
					return w, fmt.Sprintf("call %d (%s): reused compiled expression returned %s, a freshly built one %s", i, o, out, fo)
				}
			}
		}
	}
	return w, ""
}

type c13Memo struct {
	ch chan func(map[string]string)
}

func newC13Memo() *c13Memo {
	m := &c13Memo{ch: make(chan func(map[string]string), 64)}
	go func() {
		data := map[string]string{}
		for f := range m.ch {
			f(data)
		}
	}()
	return m
}
func (m *c13Memo) get(k string) (string, bool) {
	type r struct {
		v  string
		ok bool
	}
	c := make(chan r, 1)
	m.ch <- func(d map[string]string) { v, ok := d[k]; c <- r{v, ok} }
	x := <-c
	return x.v, x.ok
}
func (m *c13Memo) put(k, v string) {
	m.ch <- func(d map[string]string) {
		if _, ok := d[k]; !ok {
			d[k] = v
		}
	}
}

func C13(c *run.Check) {
	maxDepth := 2
	if !c.Quick() {
		maxDepth = 3
	}
	ops := c13Ops()
	memo := newC13Memo()
	// every package-level variable of the library, incl. the generated tables
	// (start / end of the run; the small ones around every explored call)
	globals0 := libGlobalsPrint(true)
	type st struct {
		doc  int
		hist []c13Op
	}
	seen := map[string]bool{}
	var frontier []st
	for d := 0; d < 2; d++ {
		w := newC13World(d)
		seen[fmt.Sprint(d, "|", w.key())] = true
		frontier = append(frontier, st{d, nil})
		c.States.Add(1)
	}
	completed := 0
	for depth := 1; depth <= maxDepth && len(frontier) > 0; depth++ {
		if c.TimeUp() {
			break
		}
		type res struct {
			key  string
			next st
		}
		results := make([][]res, len(frontier))
		run.ParallelW(len(frontier)*len(ops), func(w, i int) {
			if c.Violations() > 0 || c.TimeUp() {
				return
			}
			s, o := frontier[i/len(ops)], ops[i%len(ops)]
			hist := append(append([]c13Op{}, s.hist...), o)
			c.Transitions.Add(1)
			c.Evaluations.Add(int64(len(hist)))
			c.Traces.Add(1)
			world, msg := c13Run(s.doc, hist, memo, false)
			if msg != "" {
				var tr []string
				for _, h := range hist {
					tr = append(tr, h.String())
				}
				c.Violation(c13Replay{Doc: s.doc, History: hist, Trace: tr, Detail: msg}, fmt.Sprintf("doc %d, history [%s]: %s", s.doc, strings.Join(tr, "; "), msg))
				return
			}
			_ = world
			results[i/len(ops)] = append(results[i/len(ops)], res{fmt.Sprint(s.doc, "|", world.key()), st{s.doc, hist}})
		})
		if c.Violations() > 0 {
			break
		}
		var next []st
		for _, l := range results {
			for _, r := range l {
				if !seen[r.key] {
					seen[r.key] = true
					next = append(next, r.next)
					c.States.Add(1)
					c.Distinct(r.key)
					if len(r.next.hist) == 2 && c.States.Load()%5 == 0 {
						var tr []string
						for _, h := range r.next.hist {
							tr = append(tr, h.String())
						}
						c.Sample(map[string]interface{}{"doc": r.next.doc, "history": tr, "state": r.key})
					}
				}
			}
		}
		frontier = next
		completed = depth
	}
	// BuildExpr of the same string yields an equivalent query, whatever order the
	// parser's map iteration records ambiguous alternatives in: every single
	// deviation from the built order is enumerated (c13amb.go)
	if c.Violations() == 0 {
		c13ParserOrder(c)
	}
	// ... and whatever was built before in the same process (c13hist.go)
	if c.Violations() == 0 {
		c13BuildHistory(c)
	}
	if globals0 != nil {
		// not a violation by itself: package-level state is not something the caller
		// can observe directly (a cache or a counter is legitimate); its effect on later
		// results is what the history-independence comparison above decides
		if d := libGlobalsDiff(globals0, libGlobalsPrint(true)); d != "" {
			c.Set("library_package_level_state_changed_by_the_explored_calls", d)
		} else {
			c.Set("library_package_level_state_changed_by_the_explored_calls", "no")
		}
		c.Set("library_package_level_variables_fingerprinted", len(globals0))
	} else {
		c.Set("library_package_level_variables_fingerprinted", "none (harness built without the globals overlay)")
	}
	c.Set("max_depth_completed", completed)
	c.Set("operations_per_state", len(ops))
	if completed < maxDepth {
		c.Exhaustive = false
	}
	c.Rule = fmt.Sprintf("explicit-state BFS over call histories on 2 documents: state = (contents, length and capacity of the two caller-held node-set slots); %d operations per state (Exec of %d menu expressions incl. unions of caller variables, reverse axes, filters, from 3 context nodes (root, element, attribute), optionally keeping the result - possibly re-sliced to one element with spare capacity - in a slot; Unmarshal into slice and struct; BuildExpr replacing a compiled object); every transition = replay of the shortest history on fresh real objects + 1 call; after the call deep fingerprints (unexported fields, spare capacity, cyclic pointers) of the document tree, both slots' full-capacity views, all compiled expressions and the caller's binding maps must be unchanged (package-level variables of the library, reached through a generated build overlay, are fingerprinted too and reported, but a change there is not a violation by itself), the result must equal the result of the same call with the same argument values in every other history, and a reused compiled expression must agree with a freshly built one; plus, for every expression of the C08 AST universe, every ambiguous alternative list of the built parse forest rotated so that each alternative comes first once (covering every order the parser's map iteration can produce, one list at a time): same results required; plus process histories: for every ordered pair of %d calls (32 near-duplicate expression texts differing only in white space inside/outside literals, quote style, letter case, numeral spelling, abbreviation; 8 texts from 3 context nodes of 2 documents; 10 texts about node values - string-values, node-set comparisons, sums - on both documents) a fresh process builds and executes the first, then the second, whose outcome must equal its outcome in a process where nothing ran before", len(ops), len(c13Menu), len(c13Calls()))
	c.Assume("fingerprints are computed by reflection over the real objects (harness/snap); parser-order exploration permutes one alternative list at a time (<=1 deviation from the built order)")
}

func init() {
	Registry["C13"] = Prop{"model_checking", C13}
	replayers["C13"] = func(raw json.RawMessage) string {
		var bh struct {
			Kind     string
			First    c13Call
			Then     c13Call
			Repeated int
		}
		json.Unmarshal(raw, &bh)
		if bh.Kind == "build-history" {
			idx := func(t c13Call) int {
				for i, x := range c13Calls() {
					if x == t {
						return i
					}
				}
				return -1
			}
			i, j := idx(bh.First), idx(bh.Then)
			if i < 0 || j < 0 {
				return "the calls of this replay are no longer in the universe"
			}
			hist := []int{i}
			for k := 1; k < bh.Repeated; k++ {
				hist = append(hist, i)
			}
			alone, after := c13RunHistory(j), c13RunHistory(append(hist, j)...)
			fmt.Printf("   %s alone: %s\n   after %s: %s\n", bh.Then, alone, bh.First, after)
			if alone != after {
				return "the outcome depends on what was built and executed before in the same process"
			}
			return ""
		}
		var r c13Replay
		json.Unmarshal(raw, &r)
		for _, t := range r.Trace {
			fmt.Println("  ", t)
		}
		_, msg := c13Run(r.Doc, r.History, nil, true)
		if msg == "" && strings.Contains(r.Detail, "another history") {
			return "history-dependence needs the other history; re-run ./check C13 quick (" + r.Detail + ")"
		}
		return msg
	}
}
