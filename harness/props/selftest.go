package props

import (
	"fmt"
	"math"
	"os"

	"xv/adoc"
	"xv/refxp"
)

// SelfTest validates the reference model before any check trusts it: the
// examples printed in the XPath 1.0 Recommendation, axis identities evaluated
// inside the reference, and parse(render(ast)) round trips of the reference
// parser/renderer pair. A failure means the harness is broken (exit 2), never
// that the library is wrong.
func SelfTest() int {
	bad := 0
	fail := func(f string, a ...interface{}) {
		bad++
		if bad < 20 {
			fmt.Fprintf(os.Stderr, "selftest: "+f+"\n", a...)
		}
	}
	d := c08Doc(1)
	env := c08Env.RefEnv(d)
	ev := func(s string) (refxp.Value, error) {
		ast, err := refxp.Parse(s, refxp.Options{})
		if err != nil {
			return nil, err
		}
		return refxp.Eval(ast, d.Root, env)
	}
	// --- examples from the Recommendation (sections 4.2, 4.3, 4.4) and obvious facts
	strCases := map[string]string{
		`substring("12345", 2, 3)`: "234", `substring("12345", 2)`: "2345", `substring("12345", 1.5, 2.6)`: "234", `substring("12345", 0, 3)`: "12",
		`substring("12345", 0 div 0, 3)`: "", `substring("12345", 1, 0 div 0)`: "", `substring("12345", -42, 1 div 0)`: "12345", `substring("12345", -1 div 0, 1 div 0)`: "",
		`translate("bar","abc","ABC")`: "BAr", `translate("--aaa--","abc-","ABC")`: "AAA", `substring-before("1999/04/01","/")`: "1999", `substring-after("1999/04/01","/")`: "04/01",
		`substring-after("1999/04/01","19")`: "99/04/01", `normalize-space("  a   b ")`: "a b", `concat("a","b","c")`: "abc", `string(1 div 0)`: "Infinity", `string(-1 div 0)`: "-Infinity",
		`string(0 div 0)`: "NaN", `string(-0)`: "0", `string(1.50)`: "1.5", `string(100)`: "100", `string(0.0000001)`: "0.0000001", `string(true())`: "true", `string(//a)`: "2", `name(//a)`: "a",
		`string(1 = 1)`: "true", `string(//b/ancestor::*)`: "235711", `string(/r/a[2]/b/preceding::*)`: "2",
	}
	for e, want := range strCases {
		v, err := ev(e)
		if err != nil || refxp.ToString(v) != want {
			fail("%s = %v (%v), want %q", e, v, err, want)
		}
	}
	numCases := map[string]float64{
		`round(-1.5)`: -1, `round(1.5)`: 2, `round(2.5)`: 3, `round(-2.5)`: -2, `round(0.5)`: 1, `round(-0.2)`: 0, `round(0.49999999999999994)`: 0, `floor(-0.5)`: -1, `ceiling(-0.5)`: 0,
		`5 mod 2`: 1, `5 mod -2`: 1, `-5 mod 2`: -1, `-5 mod -2`: -1, `5.5 mod 2`: 1.5, `string-length("é😀")`: 2, `count(//b)`: 2, `sum(//b)`: 14, `number(" 12 ")`: 12, `count(/r/a[2]/b/ancestor::node())`: 3,
		`1 + 2 * 3`: 7, `(1 + 2) * 3`: 9, `7 - 2 - 1`: 4, `8 div 4 div 2`: 1, `-2 * -3`: 6, `2 - -3`: 5, `count(//a | //b)`: 4, `count(//a/following::*)`: 4, `count(/r/c/preceding::*)`: 2, `count(//b[1])`: 2, `count((//b)[1])`: 1,
		`count(//*[last()])`: 3, `count(/r/*[position() = last()])`: 1, `count(/r/a[2]/b/ancestor::*[1])`: 1, `last()`: 1, `position()`: 1,
	}
	for e, want := range numCases {
		v, err := ev(e)
		f, ok := v.(float64)
		if err != nil || !ok || (f != want && !(math.IsNaN(f) && math.IsNaN(want))) {
			fail("%s = %v (%v), want %v", e, v, err, want)
		}
	}
	boolCases := map[string]bool{
		`1 < 2`: true, `"10" < "9"`: false, `//b = 3`: true, `//b != 3`: true, `//b = //c`: false, `//zz = //zz`: false, `//zz != 1`: false, `0 div 0 = 0 div 0`: false, `0 div 0 != 0 div 0`: true,
		`boolean(0 div 0)`: false, `boolean("false")`: true, `true() = "x"`: true, `1 = "1"`: true, `"1" = 1.0`: true, `//a > 6`: true, `//a > 711`: false, `1 or 0 div 0`: true, `not(//zz)`: true,
		`//zz = false()`: true, `//b = true()`: true, `1 < 2 < 3`: true, `3 > 2 > 1`: false, `1 = 1 = 1`: true, `number("1e3") = number("1e3")`: false, `number("+1") = 1`: false,
	}
	for e, want := range boolCases {
		v, err := ev(e)
		b, ok := v.(bool)
		if err != nil || !ok || b != want {
			fail("%s = %v (%v), want %v", e, v, err, want)
		}
	}
	for _, e := range []string{`count(1)`, `1 | 2`, `1/a`, `$nosuch`, `zz:a`, `nosuch()`, `concat("a")`, `substring("a")`, `//a[`, `1 +`, `a b`, `()`, `child::`, `//a/(b)`, `1.2.3`, `'a`, `//@`, `..[1]`, `.[1]`, `a::b`, `$ v`, `p :a`} {
		if v, err := ev(e); err == nil {
			fail("%s must be an error, got %v", e, v)
		}
	}
	// lang() per section 4.3
	ld := adoc.NewDoc()
	p := adoc.E("para", adoc.T("x"))
	p.Add(adoc.ANS(adoc.XMLNS, "xml", "lang", "en-us"))
	dv := adoc.E("div", adoc.E("para"))
	dv.Add(adoc.ANS(adoc.XMLNS, "xml", "lang", "EN"))
	ld.Root.Add(adoc.E("top", p, dv, adoc.E("para")))
	ld.Finish()
	if !refxp.Lang(p, "en") || !refxp.Lang(p.Children[0], "EN-US") || refxp.Lang(p, "en-u") || !refxp.Lang(dv.Children[0], "en") || refxp.Lang(ld.Root.Children[0].Children[2], "en") || refxp.Lang(p, "e") {
		fail("lang() reference")
	}
	// --- axis identities inside the reference, over the C01 universe (n<=3, D2)
	for _, f := range c01Shapes(3) {
		doc := adoc.Instantiate(f, adoc.D2)
		var tree []*adoc.Node
		for _, n := range doc.Nodes {
			if n.IsTreeNode() {
				tree = append(tree, n)
			}
		}
		duals := [][2]string{{"child", "parent"}, {"descendant", "ancestor"}, {"following", "preceding"}, {"following-sibling", "preceding-sibling"}}
		for _, x := range doc.Nodes {
			in := func(ax string, from, n *adoc.Node) bool {
				for _, y := range refxp.Axis(ax, from, doc) {
					if y == n {
						return true
					}
				}
				return false
			}
			if x.IsTreeNode() {
				for _, y := range tree {
					cnt := 0
					for _, ax := range []string{"ancestor", "descendant", "following", "preceding", "self"} {
						if in(ax, x, y) {
							cnt++
						}
					}
					if cnt != 1 {
						fail("partition: %s in %d of the five axes of %s in %s", y.Describe(), cnt, x.Describe(), doc.String())
					}
					for _, du := range duals {
						if in(du[0], x, y) != in(du[1], y, x) {
							fail("dual %s/%s between %s and %s", du[0], du[1], x.Describe(), y.Describe())
						}
					}
				}
			}
			if x.Kind != adoc.Root && !in("ancestor", x, doc.Root) {
				fail("root is not an ancestor of %s", x.Describe())
			}
		}
		if len(refxp.Axis("parent", doc.Root, doc)) != 0 || len(refxp.Axis("following-sibling", doc.Root, doc)) != 0 {
			fail("root has parent/siblings")
		}
	}
	// --- parser / renderer round trip on the C08 AST universe
	docs := []*adoc.Doc{c08Doc(0), c08Doc(1), c08Doc(2)}
	rends := []refxp.RenderOpt{{}, {WS: 1}, {WS: 2}, {FullParens: true}, {Unabbrev: true}, {FullParens: true, WS: 1, Unabbrev: true}}
	for _, ast := range c08ASTs(true) {
		canon := refxp.Render(ast, refxp.RenderOpt{})
		for _, ro := range rends {
			text := refxp.Render(ast, ro)
			back, err := refxp.Parse(text, refxp.Options{})
			if err != nil {
				// a generated AST may be a deliberate non-expression only through its
				// tokens (none are); report
				fail("reference parser rejects rendering %q of %s: %v", text, canon, err)
				continue
			}
			if ro == (refxp.RenderOpt{}) && refxp.Render(back, refxp.RenderOpt{}) != text {
				fail("render(parse(%q)) = %q", text, refxp.Render(back, refxp.RenderOpt{}))
			}
			for _, dd := range docs {
				e := c08Env.RefEnv(dd)
				v1, err1 := refxp.Eval(ast, dd.Root, e)
				v2, err2 := refxp.Eval(back, dd.Root, e)
				if !SameValue(RefOutcome(v2, err2), RefOutcome(v1, err1), true) {
					fail("rendering %q of AST %s evaluates to %v, the AST to %v", text, canon, RefOutcome(v2, err2), RefOutcome(v1, err1))
				}
			}
		}
	}
	// number -> string judge
	for _, c := range []struct {
		f  float64
		s  string
		ok bool
	}{{1.5, "1.5", true}, {1.5, "1.50", true}, {100, "100", true}, {100, "100.0", false}, {1e21, "1e+21", false}, {1e21, "1000000000000000000000", true}, {0.5, ".5", true}, {-0.0, "0", true}, {0, "-0", false}, {math.NaN(), "NaN", true}, {0.1, "0.1", true}, {0.1, "0.10000000000000001", true}, {0.1, "0.1000000000000001", false}} {
		if refxp.NumberStringOK(c.f, c.s) != c.ok {
			fail("NumberStringOK(%v,%q) != %v", c.f, c.s, c.ok)
		}
	}
	if bad > 0 {
		fmt.Fprintf(os.Stderr, "selftest: %d failures\n", bad)
		return 2
	}
	return 0
}
