package props

// SelfTest validates the reference model before any check trusts it.
func SelfTest() int {
	return 0
}
