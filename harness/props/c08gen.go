package props

import (
	"xv/refxp"
)

// ---- AST universe of C08 -----------------------------------------------------

func num(s string) refxp.Expr                   { return refxp.Num{Text: s} }
func lit(s string) refxp.Expr                   { return refxp.Lit{V: s} }
func bin(op string, l, r refxp.Expr) refxp.Expr { return &refxp.Bin{Op: op, L: l, R: r} }
func neg(x refxp.Expr) refxp.Expr               { return &refxp.Neg{X: x} }
func call(name string, args ...refxp.Expr) *refxp.Call {
	return &refxp.Call{Local: name, Args: args}
}
func nameTest(local string) refxp.Test { return refxp.Test{Kind: refxp.TName, Local: local} }
func child(local string, preds ...refxp.Expr) *refxp.Step {
	return &refxp.Step{Form: refxp.FormChild, Axis: "child", Test: nameTest(local), Preds: preds}
}
func axisStep(axis string, t refxp.Test, preds ...refxp.Expr) *refxp.Step {
	return &refxp.Step{Form: refxp.FormFull, Axis: axis, Test: t, Preds: preds}
}
func attr(local string) *refxp.Step {
	return &refxp.Step{Form: refxp.FormAt, Axis: "attribute", Test: nameTest(local)}
}
func dot() *refxp.Step {
	return &refxp.Step{Form: refxp.FormDot, Axis: "self", Test: refxp.Test{Kind: refxp.TNode}}
}
func dotdot() *refxp.Step {
	return &refxp.Step{Form: refxp.FormDotDot, Axis: "parent", Test: refxp.Test{Kind: refxp.TNode}}
}
func ds(s *refxp.Step) *refxp.Step {
	c := *s
	c.DSlash = true
	return &c
}
func rel(steps ...*refxp.Step) refxp.Expr { return &refxp.Path{Steps: steps} }
func abs(steps ...*refxp.Step) refxp.Expr { return &refxp.Path{Abs: true, Steps: steps} }
func filt(start refxp.Expr, preds []refxp.Expr, steps ...*refxp.Step) refxp.Expr {
	return &refxp.Path{Start: start, StartPreds: preds, Steps: steps}
}

var c08BinOps = []string{"or", "and", "=", "!=", "<", "<=", ">", ">=", "+", "-", "*", "div", "mod", "|"}

// operand leaves: numbers distinct primes so that every sub-expression
// matters; node-set leaves for '|'.
func c08Leaf(op string, slot int) refxp.Expr {
	if op == "|" {
		switch slot {
		case 0:
			return abs(ds(child("a")))
		case 1:
			return abs(ds(child("b")))
		default:
			return abs(child("*"), child("child"))
		}
	}
	return []refxp.Expr{num("7"), num("2"), num("3")}[slot]
}

func c08ASTs(quick bool) []refxp.Expr {
	var out []refxp.Expr
	add := func(e ...refxp.Expr) { out = append(out, e...) }
	// single operators
	for _, op := range c08BinOps {
		add(bin(op, c08Leaf(op, 0), c08Leaf(op, 1)))
	}
	// every triple of binary operators in both association shapes
	for _, o1 := range c08BinOps {
		for _, o2 := range c08BinOps {
			// (x o1 y) o2 z   and   x o1 (y o2 z): leaves typed by their parent operator
			add(bin(o2, bin(o1, c08Leaf(o1, 0), c08Leaf(o1, 1)), c08Leaf(o2, 2)))
			add(bin(o1, c08Leaf(o1, 0), bin(o2, c08Leaf(o2, 1), c08Leaf(o2, 2))))
		}
	}
	// unary minus against every operator
	for _, op := range c08BinOps {
		add(bin(op, neg(c08Leaf(op, 0)), c08Leaf(op, 1)), neg(bin(op, c08Leaf(op, 0), c08Leaf(op, 1))), bin(op, c08Leaf(op, 0), neg(c08Leaf(op, 1))))
	}
	add(neg(neg(num("7"))), neg(neg(neg(num("7")))), neg(rel(child("a"))), neg(abs(ds(child("b")))), bin("-", num("7"), neg(neg(num("2")))))
	// '*' in every operator / name-test position
	star := func() *refxp.Step { return child("*") }
	add(bin("*", rel(star()), rel(star())), bin("*", bin("*", rel(star()), rel(star())), rel(star())), bin("*", rel(child("a")), rel(star())), bin("*", rel(star()), num("2")), bin("*", num("2"), rel(star())),
		rel(child("*", rel(star()))), bin("div", rel(star()), rel(star())), bin("|", rel(star()), rel(star())), neg(rel(star())), rel(star(), star()), abs(ds(star())), rel(attr("*")),
		bin("*", rel(attr("*")), rel(attr("*"))), bin("mod", rel(star()), rel(star())), rel(child("*", bin("*", rel(star()), num("1")))), bin("=", rel(star()), rel(star())), bin("*", abs(star()), abs(star())),
		bin("+", bin("*", rel(star()), rel(star())), rel(star())), bin("and", rel(star()), rel(star())), bin("or", rel(star()), rel(star())), abs(star(), star(), star()))
	// names that spell operators, axes, node types; names with '-', '.', digits, '_', '#', non-ASCII
	names := []string{"div", "mod", "and", "or", "child", "text", "node", "comment", "self", "processing-instruction", "a-b", "a.b", "a1", "_x", "#x", "x#", "é", "a", "b"}
	for _, n := range names {
		add(abs(ds(child(n))), rel(child("r"), child(n)), bin("+", abs(ds(child(n))), num("1")), abs(ds(axisStep("self", nameTest(n)))), abs(ds(axisStep("child", nameTest(n)))),
			bin("div", abs(ds(child(n))), abs(ds(child(n)))), bin("-", abs(ds(child(n))), num("1")), bin("or", abs(ds(child(n))), abs(ds(child(n)))), abs(ds(child("*", rel(child(n))))),
			bin("*", abs(ds(child(n))), abs(ds(child(n)))), bin("|", abs(ds(child(n))), abs(ds(child("a")))), call("count", abs(ds(child(n)))), neg(abs(ds(child(n)))),
			rel(child("r", bin("=", rel(child(n)), num("2")))), bin("mod", abs(ds(child(n))), num("2")), bin("and", abs(ds(child(n))), num("1")))
	}
	// variables named like operators; prefixes named like operators
	add(refxp.VarRef{Local: "div"}, bin("div", refxp.VarRef{Local: "div"}, refxp.VarRef{Local: "v"}), bin("*", refxp.VarRef{Local: "v"}, refxp.VarRef{Local: "v"}), bin("-", refxp.VarRef{Local: "v"}, num("1")),
		abs(ds(&refxp.Step{Form: refxp.FormChild, Axis: "child", Test: refxp.Test{Kind: refxp.TName, Prefix: "div", Local: "a"}})),
		abs(ds(&refxp.Step{Form: refxp.FormChild, Axis: "child", Test: refxp.Test{Kind: refxp.TName, Prefix: "p", Local: "div"}})),
		abs(ds(&refxp.Step{Form: refxp.FormChild, Axis: "child", Test: refxp.Test{Kind: refxp.TName, Prefix: "p", Local: "*"}})),
		abs(ds(&refxp.Step{Form: refxp.FormChild, Axis: "child", Test: refxp.Test{Kind: refxp.TName, Prefix: "*", Local: "a"}})),
		abs(ds(&refxp.Step{Form: refxp.FormChild, Axis: "child", Test: refxp.Test{Kind: refxp.TName, Prefix: "*", Local: "div"}})))
	// prefixes and local names that both spell axis names / node types
	for _, pre := range []string{"p", "self", "child", "text", "node", "div"} {
		for _, loc := range []string{"a", "self", "child", "text", "div", "*"} {
			nt := refxp.Test{Kind: refxp.TName, Prefix: pre, Local: loc}
			add(abs(ds(&refxp.Step{Form: refxp.FormChild, Axis: "child", Test: nt})), abs(child("r"), axisStep("child", nt)), abs(ds(child("*", rel(axisStep("self", nt))))),
				call("count", abs(ds(&refxp.Step{Form: refxp.FormChild, Axis: "child", Test: nt}))))
		}
	}
	// numeral forms and literals
	for _, n := range []string{"1", "1.", ".5", "1.5", "01", "1.50", "0", "10", "007.700"} {
		add(num(n), bin("+", num(n), num("1")), neg(num(n)), abs(ds(child("a", num(n)))))
	}
	for _, l := range []refxp.Expr{refxp.Lit{V: "s", Quote: '\''}, refxp.Lit{V: "s", Quote: '"'}, refxp.Lit{V: `a"b`, Quote: '\''}, refxp.Lit{V: "a'b", Quote: '"'}, refxp.Lit{V: "", Quote: '\''}, refxp.Lit{V: " ", Quote: '"'},
		refxp.Lit{V: "or", Quote: '\''}, refxp.Lit{V: "/*", Quote: '\''}, refxp.Lit{V: "é😀", Quote: '"'}} {
		add(l, call("concat", l, l), call("string-length", l), bin("=", l, l), abs(ds(child("*", bin("=", rel(dot()), l)))))
	}
	// every axis and node test, abbreviations and their expansions
	tests := []refxp.Test{nameTest("a"), nameTest("*"), {Kind: refxp.TNode}, {Kind: refxp.TText}, {Kind: refxp.TComment}, {Kind: refxp.TPI}, {Kind: refxp.TPI, HasTarget: true, Target: "t"}}
	for _, ax := range refxp.Axes {
		for _, t := range tests {
			if ax == "namespace" && t.Kind == refxp.TName && t.Local != "*" {
				continue
			}
			add(abs(ds(child("a")), axisStep(ax, t)))
			if !quick {
				add(abs(ds(child("*")), axisStep(ax, t, num("1"))))
			}
		}
	}
	add(rel(dot()), rel(dotdot()), rel(child("a"), dotdot()), rel(dot(), child("a")), abs(), abs(child("a")), abs(ds(child("a"))), rel(child("a"), ds(child("b"))), rel(dot(), ds(child("b"))), abs(ds(attr("x"))),
		abs(child("*"), attr("a")), rel(child("a"), child("a")), abs(ds(dot())), abs(ds(dotdot())), abs(ds(child("a")), dotdot(), attr("x")), rel(attr("x")), abs(ds(child("b")), dot(), dotdot(), ds(child("b"))))
	// every sequence of up to three abbreviated steps after //* (each is also
	// rendered in its expanded form): a step's meaning must not depend on which
	// axis an earlier step of the same path used
	stepAlpha := []func() *refxp.Step{
		func() *refxp.Step { return child("a") }, func() *refxp.Step { return child("*") }, func() *refxp.Step { return attr("x") }, func() *refxp.Step { return attr("*") },
		dot, dotdot, func() *refxp.Step { return axisStep("namespace", nameTest("*")) }, func() *refxp.Step { return child("b") },
		func() *refxp.Step {
			return &refxp.Step{Form: refxp.FormChild, Axis: "child", Test: refxp.Test{Kind: refxp.TText}}
		}, func() *refxp.Step { return ds(child("a")) },
	}
	for _, s1 := range stepAlpha {
		for _, s2 := range stepAlpha {
			add(abs(ds(child("*")), s1(), s2()), rel(s1(), s2()))
			for _, s3 := range stepAlpha {
				if quick && len(out)%2 == 1 {
					continue
				}
				add(abs(ds(child("*")), s1(), s2(), s3()))
			}
		}
	}
	// predicates on attribute / namespace steps that walk back into the element tree
	for _, p := range []refxp.Expr{rel(dotdot(), child("a")), rel(dotdot(), child("*")), rel(dotdot()), bin("=", rel(dotdot(), child("b")), num("3")), call("count", rel(dotdot(), child("*")))} {
		at := attr("x")
		at.Preds = []refxp.Expr{p}
		add(abs(ds(child("*")), at), abs(ds(child("*")), axisStep("attribute", nameTest("*"), p)), abs(ds(child("*")), axisStep("namespace", nameTest("*"), p)),
			filt(&refxp.Paren{X: abs(ds(attr("x")))}, []refxp.Expr{p}), filt(&refxp.Paren{X: abs(ds(attr("x")))}, nil, dotdot(), child("a")))
	}
	// predicates: nesting, chains, all expression kinds inside
	preds := []refxp.Expr{num("1"), num("2"), call("last"), bin("=", call("position"), num("2")), rel(child("b")), rel(attr("x")), lit("s"), lit(""), call("true"), call("false"),
		bin("=", rel(dot()), num("2")), bin(">", call("count", rel(child("*"))), num("0")), bin("-", call("last"), num("1")), bin("or", rel(child("b")), rel(attr("x"))), bin("and", num("1"), num("0")),
		neg(num("1")), bin("|", rel(child("a")), rel(child("b"))), rel(child("a", num("1"))), bin("mod", call("position"), num("2")), bin("<", call("position"), call("last"))}
	for _, p := range preds {
		add(abs(ds(child("*", p))), abs(ds(child("a", p))), filt(&refxp.Paren{X: abs(ds(child("*")))}, []refxp.Expr{p}), abs(child("*"), child("*", p)))
		// a '//' in the middle of a path followed by a predicated step: still one
		// numbering per parent (a//b[1] is not (a/descendant::b)[1])
		add(abs(child("*"), ds(child("*", p))), abs(child("*"), ds(child("b", p))), rel(child("*"), ds(child("*", p))), abs(ds(child("*")), ds(child("b", p))), abs(child("*"), ds(child("a", p)), child("*")))
		for _, q := range preds[:8] {
			if !quick || (len(out)%3 == 0) {
				add(abs(ds(child("*", p, q))), filt(&refxp.Paren{X: abs(ds(child("*")))}, []refxp.Expr{p, q}))
			}
		}
	}
	// filter expressions continued by paths; function calls as path heads/steps
	add(filt(&refxp.Paren{X: abs(ds(child("a")))}, nil, child("b")), filt(&refxp.Paren{X: abs(ds(child("a")))}, []refxp.Expr{num("1")}, child("b")), filt(&refxp.Paren{X: abs(ds(child("a")))}, nil, ds(child("b"))),
		filt(refxp.VarRef{Local: "w"}, nil, child("a")), filt(refxp.VarRef{Local: "w"}, []refxp.Expr{num("1")}, ds(child("b"))), filt(refxp.VarRef{Local: "w"}, nil, dotdot()),
		filt(refxp.VarRef{Local: "w"}, nil, attr("x")), filt(&refxp.Paren{X: bin("|", abs(ds(child("a"))), abs(ds(child("b"))))}, nil, dotdot()),
		filt(&refxp.Paren{X: bin("|", abs(ds(child("a"))), abs(ds(child("b"))))}, []refxp.Expr{call("last")}), filt(num("1"), nil, child("a")), filt(lit("s"), nil, child("a")), filt(call("count", rel(child("a"))), nil, child("a")),
		filt(num("1"), []refxp.Expr{num("1")}), filt(call("true"), nil, dotdot()),
		&refxp.Path{Abs: true, Steps: []*refxp.Step{ds(child("a")), {Form: refxp.FormCall, Call: call("name")}}},
		&refxp.Path{Abs: true, Steps: []*refxp.Step{ds(child("a")), {Form: refxp.FormCall, Call: call("string-length")}}},
		&refxp.Path{Abs: true, Steps: []*refxp.Step{child("*"), {Form: refxp.FormCall, Call: call("count", rel(child("*")))}}},
		bin("+", &refxp.Path{Abs: true, Steps: []*refxp.Step{ds(child("b")), {Form: refxp.FormCall, Call: call("number")}}}, num("1")))
	// function calls: arity, nesting, operators in arguments
	add(call("count", abs(ds(child("a")))), call("not", num("1")), call("not", call("not", num("1"))), call("concat", lit("a"), lit("b"), lit("c")), call("concat", lit("a"), lit("b")), call("count", bin("|", abs(ds(child("a"))), abs(ds(child("b"))))),
		call("sum", abs(ds(child("*")))), call("substring", lit("12345"), num("2"), num("3")), call("substring", lit("12345"), bin("+", num("1"), num("1"))), call("true"), call("concat", lit("a")), call("count"), call("count", num("1")),
		call("nosuch"), call("string", bin("=", num("1"), num("1"))), call("string", bin("<", num("1"), num("2"))), call("floor", bin("div", num("7"), num("2"))), call("translate", lit("bar"), lit("abc"), lit("ABC")),
		call("contains", call("string", abs(ds(child("a")))), lit("2")), call("boolean", abs(ds(child("zz")))), call("id", lit("x")))
	// every argument of a call is an independent expression evaluated in the
	// context of the call: context-dependent expressions in every argument slot
	argAlpha := []func() refxp.Expr{
		func() refxp.Expr { return rel(child("a")) }, func() refxp.Expr { return rel(child("b")) }, func() refxp.Expr { return rel(dot()) }, func() refxp.Expr { return rel(attr("x")) },
		func() refxp.Expr { return lit("2") }, func() refxp.Expr { return call("string-length", rel(dot())) }, func() refxp.Expr { return call("name") }, func() refxp.Expr { return abs(ds(child("b"))) },
		func() refxp.Expr { return rel(dotdot(), child("*")) }, func() refxp.Expr { return num("1") },
	}
	for _, f2 := range []string{"concat", "contains", "starts-with", "substring-before", "substring-after", "substring"} {
		for _, a1 := range argAlpha {
			for _, a2 := range argAlpha {
				c2 := call(f2, a1(), a2())
				add(abs(ds(child("*", bin("=", c2, c2)))), call("count", abs(ds(child("*", c2)))), abs(child("*"), &refxp.Step{Form: refxp.FormCall, Call: c2}))
			}
		}
	}
	for _, a1 := range argAlpha[:6] {
		for _, a2 := range argAlpha[:6] {
			for _, a3 := range argAlpha[:6] {
				if quick && len(out)%2 == 1 {
					continue
				}
				add(abs(ds(child("*", bin("!=", call("translate", a1(), a2(), a3()), lit(""))))), call("concat", a1(), a2(), a3()), abs(ds(child("a", call("substring", a1(), a2(), a3())))))
			}
		}
	}
	// parenthesised primaries
	add(&refxp.Paren{X: num("1")}, &refxp.Paren{X: &refxp.Paren{X: num("1")}}, bin("*", &refxp.Paren{X: bin("+", num("1"), num("2"))}, num("3")), bin("-", num("7"), &refxp.Paren{X: bin("-", num("2"), num("3"))}),
		bin("div", num("7"), &refxp.Paren{X: bin("div", num("2"), num("3"))}), filt(&refxp.Paren{X: rel(child("a"))}, nil), bin("=", &refxp.Paren{X: bin("=", num("1"), num("2"))}, num("0")))
	return out
}

// hand-listed lexical edge cases evaluated as text (the reference parser
// decides what they mean).
var c08Lexical = []string{
	"a -1", "a-1", "a - 1", "7 - 2", "7-2", "7 -2", "7- 2", "//a-1", "//a -1", "//b - 1", "//a - //b", "//a-//b", "a.b", "//a.b", "//a .b", "1.5.", ".5.5", "1..2", "//a1", "//a 1",
	"* * *", "***", "2*3", "2 * 3", "2* 3", "//* * 2", "//**2", "//a*2", "//a * //b", "//a*//b", "//*[*]", "//*[* * *]",
	"7 div 2", "7div 2", "7 div2", "7div2", "7 mod 2", "7mod2", "'a'or'b'", "1or 0", "1 or0", "1 and 1", "1and 1", "1 and1", "//a and //b", "//a div //b", "//b div 2", "//b mod 2", "//div div //mod", "//or or //and",
	"child::a", "child :: a", "child:: a", "child ::a", "//child", "//child::child", "//child :: child", "//self::self", "//*/child::text()", "//*/text ()", "//*/text( )", "//text", "//node", "//comment()", "//processing-instruction ( 't' )",
	"$v", "$ v", "$v+1", "$v -1", "$v-1", "$v - 1", "$div", "$div div $v", "$w/a", "$w //a", "$p:v", "p:a", "p :a", "p: a", "p : a", "//p:*", "//p :*", "//p: *", "//*:a", "//* :a", "//*: a", "//@ x", "//@x", "// a", "/ a", "/\ta\n/\rb",
	"count(//a)", "count (//a)", "count( //a )", "count\n(\n//a\n)", "not (1)", "concat('a' , 'b')", "true ()", "true( )", "string-length( 'ab' )",
	"//a[1]", "//a [1]", "//a[ 1 ]", "//a[1] [2]", "//a [ position() = 1 ]", "( //a ) [ 1 ]", "(//a)[1]", "( 1 )", "((1))", "(1", "1)", "()", "[]", "//a[]", "//a[1", "//a]", "a/", "a//", "//", "/ /", "a//b", "a/ /b", "a / / b",
	"1 2", "'a' 'b'", "a b", "//a //b", "1 + ", "+ 1", "+1", "1 + + 1", "1 - - 1", "--1", "- - 1", "-1", "- 1", "1 = = 1", "1 ! = 1", "1 != 1", "1!=1", "1 < = 2", "1 <= 2", "1<=2", "1 <> 2", "1 == 1", "1 => 2",
	"'unterminated", "\"unterminated", "'a'b'", "'a\\'b'", "\"a\\\"", "''", "\"\"", "'\"'", "\"'\"", "1e3", "1E3", "0x10", "1_0", "1,2", ".", "..", "...", "....", ". .", ". ..", "./.", "./..", "../.", "@", "@@x", "@x/@y", "//@*", "//@ *", "@*:x",
	"a::b", "nosuchaxis::a", "child::", "::a", "child::child::a", "attribute::x", "attribute ::x", "//namespace::*", "ancestor-or-self::node()", "ancestor-or-self ::node()", "ancestor -or-self::node()",
	"/..", "/.", "/*", "/ *", "/ * 2", "/*/*", "//*//*", "///a", "////", "/a/", "//a//", "/ | /", "/|/", "//a|//b", "//a | //b | //c", "| //a", "//a |", "//a || //b",
	"1 < 2 < 3", "3 > 2 > 1", "1 = 1 = 1", "1 != 1 != 1", "1 = 2 = 0", "2 = 2 = 1", "1 < 2 = 1", "1 + 2 * 3", "1 * 2 + 3", "8 div 4 div 2", "7 - 2 - 1", "7 mod 4 mod 2", "2 * 3 mod 4", "2 + 3 = 5 and 1 or 0", "1 or 0 and 0", "0 and 0 or 1",
	"-//b", "- //b + 1", "-(//b)", "-//b | //a", "-(1 + 2)", "-1 + 2", "- 1 * 2", "-2 * -3", "2 * - 3", "2 - -3", "2--3",
	"//a[1]/b", "//a[b]", "//a[b][1]", "//a[b[1]]", "//a[not(b)]", "//*[name() = 'a']", "//*[self::a]", "//*[self::a or self::b]", "//*[a | b]", "//*[count(a | b) > 0]", "//*[. = 2]", "//*[.=2]", "//*[ . = 2 ]", "//*[..]", "//*[../..]",
	"id('x')", "lang('en')", "//a/id('x')", "f:g()", "p:f()", "p:a()", "a()", "text()", "text(1)", "node(1)", "comment('x')", "processing-instruction('a','b')", "processing-instruction(a)", "processing-instruction(1)",
	"//a ", " //a", "//a　|　//b", "1 + 1", "1 + 1", "//a\u000b", "\ufeff//a", "//_x", "//_", "//#x", "//x#", "//é", "//É", "//a·b", "//a:b:c", "//:a", "//a:", "$:v", "$", "$1", "$v:", "$v:w:x",
	"string-length('x  y')", "string-length('x y')", "string-length('x\ty')", "string-length( 'x y' )", "concat('a','b ')", "concat('a','b')", "concat('a', 'b')", "concat('A','b')", "translate('a\tb',' ','_')", "translate('a b',' ','_')",
	"p : f()", "p :f()", "p: f()", "p:f ()", "p : f ( 1 )", "f ()", "f( )", "$p:v + 1", "$p : v", "$p :v", "$p: v", "$ p:v", "p : f(p : a)", "count(p : *)",
	"1/not('s')", "'a'/string-length()", "1/count(//a)", "//a/string()/string-length()", "count(//a)/string()", "true()/not(1)", "//a/name()/.", "(1)/f()", "$v/string()", "//a/string()", "//a/count(*)",
	// a step applied to something that is not a node-set, for every axis and spelling of the step
	"1/self::node()", "'a'/self::*", "true()/self::text()", "(1)/self::node()", "count(//a)/self::node()", "//a[3/self::node()]", "1/.", "1/..", "'a'/.", "1/child::a", "1/a", "1/*", "1/@x", "1/parent::*", "1/descendant::a",
	"1/descendant-or-self::node()", "1//a", "1/ancestor::*", "1/ancestor-or-self::*", "1/following::*", "1/following-sibling::*", "1/preceding::*", "1/preceding-sibling::*", "1/attribute::*", "1/namespace::*", "1/text()", "1/node()",
	"$v/self::node()", "$v/.", "concat('a','b')/self::node()", "(1 + 1)/self::*", "//a[1/self::node() = 1]", "count(1/self::node())", "string('x'/self::node())", "1/self::node()/a", "1/self::a", "1/self::p:a", "1/self::p:*",
	". 5", "1 . 5", "1. 5", "1 .5", "1 .", ". 1 + 1", "//a[. 1]", "//nosuch[. 1]", "//nosuch[1 . 5]", "//nosuch[1. 5]", "child [ . 1 ]", "0 and . 1", "count(//nosuch[.\n1])", "1 . . 1", ".\t5", "1 .. 5", "1 ./a", "1.5 .5",
	"", " ", "\n", "\t \n", "//a\x00", "//a\x80", "\xff", "//a<!--c-->", "//a(:c:)", "{1}", "//a{", "`a`", "//a;", "//a#", "#", "#a", "//#", "a#b", "//a\\b", "1 % 2", "1 ^ 2", "1 & 2", "1 && 2", "~1", "!1", "a?b", "//a ? //b",
}
