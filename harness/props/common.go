package props

import (
	"encoding/json"
	"fmt"
	"math"
	"os"
	"sort"
	"strings"
	"sync"

	"github.com/ChrisTrenkamp/xsel"
	"github.com/ChrisTrenkamp/xsel/store"

	"xv/adoc"
	"xv/impl"
	"xv/refxp"
	"xv/run"
)

// Outcome is the comparable form of a query result on either side.
type Outcome struct {
	Err     bool    `json:"err,omitempty"`
	ErrText string  `json:"errText,omitempty"`
	Type    string  `json:"type,omitempty"`    // node-set | number | string | boolean
	Nodes   []int   `json:"nodes,omitempty"`   // node IDs in the order returned
	Foreign int     `json:"foreign,omitempty"` // cursors that do not belong to the queried tree
	Num     float64 `json:"-"`
	NumS    string  `json:"num,omitempty"`
	Str     string  `json:"str,omitempty"`
	Bool    bool    `json:"bool,omitempty"`
	Nil     bool    `json:"nil,omitempty"` // nil result with nil error
	Panic   string  `json:"panic,omitempty"`
}

func (o Outcome) String() string {
	switch {
	case o.Panic != "":
		return "PANIC " + o.Panic
	case o.Err:
		return "error(" + o.ErrText + ")"
	case o.Nil:
		return "nil result, nil error"
	}
	switch o.Type {
	case "node-set":
		s := fmt.Sprint(o.Nodes)
		if o.Foreign > 0 {
			s += fmt.Sprintf("+%d foreign", o.Foreign)
		}
		return "node-set" + s
	case "number":
		return "number " + o.NumS
	case "string":
		return fmt.Sprintf("string %q", o.Str)
	case "boolean":
		return fmt.Sprint("boolean ", o.Bool)
	}
	return "?"
}

func fmtNum(f float64) string {
	if f == 0 && math.Signbit(f) {
		return "-0"
	}
	return fmt.Sprint(f)
}

func ImplOutcome(b *impl.Binding, r xsel.Result, err error) Outcome {
	if err != nil {
		o := Outcome{Err: true, ErrText: err.Error()}
		return o
	}
	switch v := r.(type) {
	case nil:
		return Outcome{Nil: true}
	case xsel.NodeSet:
		o := Outcome{Type: "node-set", Nodes: []int{}}
		for _, c := range v {
			if c == nil {
				o.Foreign++
				continue
			}
			n, ok := b.ToNode[c]
			if !ok {
				o.Foreign++
				continue
			}
			o.Nodes = append(o.Nodes, n.ID)
		}
		return o
	case xsel.Number:
		return Outcome{Type: "number", Num: float64(v), NumS: fmtNum(float64(v))}
	case xsel.String:
		return Outcome{Type: "string", Str: string(v)}
	case xsel.Bool:
		return Outcome{Type: "boolean", Bool: bool(v)}
	}
	return Outcome{Err: true, ErrText: fmt.Sprintf("unknown result type %T", r)}
}

func RefOutcome(v refxp.Value, err error) Outcome {
	if err != nil {
		return Outcome{Err: true, ErrText: err.Error()}
	}
	switch x := v.(type) {
	case refxp.NodeSet:
		o := Outcome{Type: "node-set", Nodes: []int{}}
		for _, n := range x {
			o.Nodes = append(o.Nodes, n.ID)
		}
		return o
	case float64:
		return Outcome{Type: "number", Num: x, NumS: fmtNum(x)}
	case string:
		return Outcome{Type: "string", Str: x}
	case bool:
		return Outcome{Type: "boolean", Bool: x}
	}
	return Outcome{Err: true, ErrText: "bad reference value"}
}

func sortedCopy(a []int) []int {
	c := append([]int{}, a...)
	sort.Ints(c)
	return c
}

// SameValue compares what the properties state: error vs value (never the
// text), node-sets as identity sets, numbers by value with NaN==NaN and the
// sign of zero distinguished only when signZero is set.
func SameValue(got, want Outcome, signZero bool) bool {
	if got.Panic != "" || got.Nil {
		return false
	}
	if got.Err || want.Err {
		return got.Err == want.Err
	}
	if got.Type != want.Type {
		return false
	}
	switch got.Type {
	case "node-set":
		if got.Foreign > 0 {
			return false
		}
		a, b := sortedCopy(got.Nodes), sortedCopy(want.Nodes)
		if len(a) != len(b) {
			return false
		}
		for i := range a {
			if a[i] != b[i] {
				return false
			}
		}
		return true
	case "number":
		if math.IsNaN(got.Num) || math.IsNaN(want.Num) {
			return math.IsNaN(got.Num) && math.IsNaN(want.Num)
		}
		if got.Num != want.Num {
			return false
		}
		if signZero && got.Num == 0 {
			return math.Signbit(got.Num) == math.Signbit(want.Num)
		}
		return true
	case "string":
		return got.Str == want.Str
	case "boolean":
		return got.Bool == want.Bool
	}
	return false
}

// IsPanicErr recognises the library's recovered-panic error.
func IsPanicErr(o Outcome) bool {
	return o.Err && strings.Contains(o.ErrText, "xpath query panic")
}

// ---- environments ---------------------------------------------------------

// VarSpec is a serialisable variable value.
type VarSpec struct {
	Space string   `json:"space,omitempty"`
	Local string   `json:"local"`
	Type  string   `json:"type"` // number | string | boolean | node-set
	Num   string   `json:"num,omitempty"`
	Str   string   `json:"str,omitempty"`
	Bool  bool     `json:"bool,omitempty"`
	Nodes []string `json:"nodes,omitempty"` // node paths
}

type EnvSpec struct {
	NS    map[string]string `json:"ns,omitempty"`
	Vars  []VarSpec         `json:"vars,omitempty"`
	Funcs []string          `json:"funcs,omitempty"` // stock user functions, see stockFuncs
	// Assign: hand the bindings over the way the command line tool does - one
	// ContextApply that ASSIGNS caller-built maps to the exported fields instead
	// of inserting into the maps the library prepared.
	Assign bool      `json:"assign,omitempty"`
	rec    *recorder // call logs of recording user functions (not serialised)
}

// recorder collects what recording user functions observed on each side.
type recorder struct {
	impl, ref []string
}

func (r *recorder) reset() { r.impl, r.ref = r.impl[:0], r.ref[:0] }

func parseNum(s string) float64 {
	switch s {
	case "NaN":
		return math.NaN()
	case "Infinity", "+Inf":
		return math.Inf(1)
	case "-Infinity", "-Inf":
		return math.Inf(-1)
	case "-0":
		return math.Copysign(0, -1)
	}
	var f float64
	fmt.Sscan(s, &f)
	return f
}

// RefEnv builds the reference environment for a document.
func (e EnvSpec) RefEnv(d *adoc.Doc) *refxp.Env {
	env := &refxp.Env{NS: map[string]string{}, Vars: map[refxp.Name]refxp.Value{}, Funcs: map[refxp.Name]refxp.UserFunc{}, Doc: d}
	for k, v := range e.NS {
		env.NS[k] = v
	}
	for _, v := range e.Vars {
		var val refxp.Value
		switch v.Type {
		case "number":
			val = parseNum(v.Num)
		case "string":
			val = v.Str
		case "boolean":
			val = v.Bool
		case "node-set":
			ns := refxp.NodeSet{}
			for _, p := range v.Nodes {
				ns = append(ns, d.Resolve(p))
			}
			val = refxp.SortUnique(ns)
		}
		env.Vars[refxp.Name{Space: v.Space, Local: v.Local}] = val
	}
	for _, f := range e.Funcs {
		sf := stockFuncs[f]
		if sf.refRec != nil {
			env.Funcs[refxp.Name{Space: sf.space, Local: sf.local}] = sf.refRec(e.rec)
		} else {
			env.Funcs[refxp.Name{Space: sf.space, Local: sf.local}] = sf.ref
		}
	}
	return env
}

// ImplSettings builds the option list for xsel.Exec.
func (e EnvSpec) ImplSettings(b *impl.Binding) []xsel.ContextApply {
	var out []xsel.ContextApply
	for k, v := range e.NS {
		out = append(out, xsel.WithNS(k, v))
	}
	for _, v := range e.Vars {
		var val xsel.Result
		switch v.Type {
		case "number":
			val = xsel.Number(parseNum(v.Num))
		case "string":
			val = xsel.String(v.Str)
		case "boolean":
			val = xsel.Bool(v.Bool)
		case "node-set":
			ns := xsel.NodeSet{}
			for _, p := range v.Nodes {
				ns = append(ns, b.ToCur[b.Doc.Resolve(p)])
			}
			val = ns
		}
		out = append(out, xsel.WithVariableNS(v.Space, v.Local, val))
	}
	for _, f := range e.Funcs {
		sf := stockFuncs[f]
		if sf.implRec != nil {
			out = append(out, xsel.WithFunctionNS(sf.space, sf.local, sf.implRec(b, e.rec)))
		} else {
			out = append(out, xsel.WithFunctionNS(sf.space, sf.local, sf.impl(b)))
		}
	}
	if e.Assign {
		own := xsel.ContextSettings{NamespaceDecls: map[string]string{}, Variables: map[xsel.XmlName]xsel.Result{}, FunctionLibrary: map[xsel.XmlName]xsel.Function{}}
		for _, f := range out {
			f(&own)
		}
		return []xsel.ContextApply{func(c *xsel.ContextSettings) {
			c.NamespaceDecls, c.Variables, c.FunctionLibrary = own.NamespaceDecls, own.Variables, own.FunctionLibrary
		}}
	}
	return out
}

// stockFunc is a user function available on both sides under one name.
type stockFunc struct {
	space, local string
	ref          refxp.UserFunc
	impl         func(b *impl.Binding) xsel.Function
	refRec       func(rec *recorder) refxp.UserFunc
	implRec      func(b *impl.Binding, rec *recorder) xsel.Function
}

var stockFuncs = map[string]stockFunc{
	// els(): all elements of the document, in document order
	"els": {space: "", local: "els",
		ref: func(ctx refxp.Ctx, args []refxp.Value) (refxp.Value, error) {
			ns := refxp.NodeSet{}
			for _, n := range ctx.Env.Doc.Nodes {
				if n.Kind == adoc.Elem {
					ns = append(ns, n)
				}
			}
			return ns, nil
		},
		impl: func(b *impl.Binding) xsel.Function {
			return func(c xsel.Context, args ...xsel.Result) (xsel.Result, error) {
				ns := xsel.NodeSet{}
				for _, n := range b.Doc.Nodes {
					if n.Kind == adoc.Elem {
						ns = append(ns, b.ToCur[n])
					}
				}
				return ns, nil
			}
		}},
}

// ---- replayable expression case -------------------------------------------

// XCase is one document x context x expression x environment case.
type XCase struct {
	Kind        string       `json:"kind"`
	Doc         string       `json:"doc"` // human readable
	Events      []impl.Event `json:"events"`
	ImplicitXML bool         `json:"implicitXML,omitempty"`
	Ctx         string       `json:"ctx"`
	Expr        string       `json:"expr"`
	Env         EnvSpec      `json:"env"`
	Want        string       `json:"want,omitempty"`
	Got         string       `json:"got,omitempty"`
	Extra       string       `json:"extra,omitempty"`
}

func MakeXCase(kind string, d *adoc.Doc, ctx *adoc.Node, expr string, env EnvSpec, want, got Outcome) XCase {
	evs := impl.Events(d)
	if d.ImplicitXML {
		// strip the implicit xml namespace events again: they are re-added on replay
		var f []impl.Event
		for _, e := range evs {
			if e.K == impl.EvNS && e.Local == "xml" && e.Value == adoc.XMLNS {
				continue
			}
			f = append(f, e)
		}
		evs = f
	}
	return XCase{Kind: kind, Doc: d.String(), Events: evs, ImplicitXML: d.ImplicitXML, Ctx: ctx.Path(), Expr: expr, Env: env,
		Want: want.String(), Got: got.String()}
}

// Rebuild reconstructs document and binding of a stored case.
func (x XCase) Rebuild() (*adoc.Doc, *impl.Binding, error) {
	d := impl.FromEvents(x.Events)
	if x.ImplicitXML {
		d.ImplicitXML = true
		d.Finish()
	}
	b, err := impl.Bind(d)
	return d, b, err
}

// ExecImpl runs expr on the implementation, converting escaped panics.
func ExecImpl(b *impl.Binding, ctx store.Cursor, g *xsel.Grammar, settings []xsel.ContextApply) (o Outcome) {
	defer func() {
		if r := recover(); r != nil {
			o = Outcome{Panic: fmt.Sprint(r)}
		}
	}()
	slot := run.Enter("Exec", g)
	defer run.Leave(slot) // also when the call panics
	r, err := xsel.Exec(ctx, g, settings...)
	return ImplOutcome(b, r, err)
}

// Build compiles an expression, converting escaped panics into an outcome.
func BuildImpl(expr string) (g *xsel.Grammar, o Outcome) {
	defer func() {
		if r := recover(); r != nil {
			g = nil
			o = Outcome{Panic: fmt.Sprint(r)}
		}
	}()
	slot := run.Enter("BuildExpr", expr)
	defer run.Leave(slot)
	gg, err := xsel.BuildExpr(expr)
	if err != nil {
		return nil, Outcome{Err: true, ErrText: "BuildExpr: " + firstLine(err.Error())}
	}
	return &gg, Outcome{}
}

func firstLine(s string) string {
	if i := strings.IndexByte(s, '\n'); i >= 0 {
		return s[:i]
	}
	return s
}

// exprCache is a per-worker cache of compiled expressions (compiled queries
// are never shared between harness goroutines: sharing is C14's subject).
type exprCache struct {
	m map[string]*xsel.Grammar
	e map[string]Outcome
}

func newExprCache() *exprCache {
	return &exprCache{m: map[string]*xsel.Grammar{}, e: map[string]Outcome{}}
}

func (c *exprCache) get(expr string) (*xsel.Grammar, Outcome) {
	if g, ok := c.m[expr]; ok {
		return g, c.e[expr]
	}
	g, o := BuildImpl(expr)
	c.m[expr] = g
	c.e[expr] = o
	return g, o
}

// refExpr is a parsed reference expression.
type refExpr struct {
	Text string
	AST  refxp.Expr
	Err  error
}

func mustParse(texts []string) []refExpr {
	out := make([]refExpr, len(texts))
	for i, t := range texts {
		a, err := refxp.Parse(t, refxp.Options{})
		out[i] = refExpr{t, a, err}
	}
	return out
}

// ---- triage mode ------------------------------------------------------------

// In triage mode (VERIF_TRIAGE=1) disagreements are aggregated by class and
// printed instead of stopping at the first; used while classifying.
var triage = os.Getenv("VERIF_TRIAGE") != ""

type triageAgg struct {
	mu sync.Mutex
	m  map[string]*triageEnt
}
type triageEnt struct {
	n     int
	first string
}

var tri = &triageAgg{m: map[string]*triageEnt{}}

var triDump = func() *os.File {
	if p := os.Getenv("VERIF_TRIAGE_DUMP"); p != "" {
		f, _ := os.Create(p)
		return f
	}
	return nil
}()

func (t *triageAgg) add(class, example string) {
	t.mu.Lock()
	if triDump != nil {
		fmt.Fprintf(triDump, "%s\t%s\n", class, example)
	}
	e := t.m[class]
	if e == nil {
		e = &triageEnt{first: example}
		t.m[class] = e
	}
	e.n++
	t.mu.Unlock()
}

func (t *triageAgg) dump() {
	keys := make([]string, 0, len(t.m))
	for k := range t.m {
		keys = append(keys, k)
	}
	sort.Slice(keys, func(i, j int) bool { return t.m[keys[i]].n > t.m[keys[j]].n })
	for _, k := range keys {
		fmt.Fprintf(os.Stderr, "TRIAGE %7d  %s\n         e.g. %s\n", t.m[k].n, k, t.m[k].first)
	}
}

// report handles one disagreement: triage aggregation or violation.
func report(c *run.Check, class string, x XCase) {
	summary := fmt.Sprintf("[%s] expr=%s ctx=%s doc=%s want=%s got=%s %s", x.Kind, x.Expr, x.Ctx, x.Doc, x.Want, x.Got, x.Extra)
	if triage {
		tri.add(class, summary)
		return
	}
	c.Violation(x, summary)
}

func finishTriage() {
	if triage {
		tri.dump()
	}
}

func init() {
	_ = json.Marshal
}
