package props

import (
	"encoding/json"
	"fmt"
	"os"

	"xv/adoc"
	"xv/refxp"
	"xv/run"
)

// ---- C01: location steps select exactly the XPath 1.0 axis/node-test set ----

var c01Env = EnvSpec{NS: map[string]string{"p": adoc.URI_U, "q": adoc.URI_V}}

func c01SingleSteps() []string {
	tests := []string{"node()", "*", "a", "text()", "comment()", "processing-instruction()", "processing-instruction('t')", "b", "p:a", "p:*", "*:a", "q:*"}
	var out []string
	for _, ax := range refxp.Axes {
		for _, t := range tests {
			if ax == "namespace" && !(t == "node()" || t == "*" || t == "text()") {
				continue // name tests on the namespace axis are outside the property
			}
			out = append(out, ax+"::"+t)
		}
	}
	out = append(out, "a", "@x", ".", "..", "*", "@*", "node()", "text()", "//a", "//*", "//@x", "//@*", "//node()", ".//a", "../a", "../*", "../@x", "./a", "//.", "//..", "@p:x", "@p:*", "@*:x", "p:a", "p:*", "*:a",
		// the principal node type changes along a path
		"@*/self::*", "@x/self::x", "@*/self::node()", "namespace::*/self::*", "@*/../self::*", "@x/../self::a", "@*/parent::*", "namespace::*/parent::*/self::*", "@*/ancestor-or-self::*", "@*/descendant-or-self::*",
		"@*/./self::*", "namespace::*/../*", "@*/../@*", "@*/../namespace::*", "namespace::*/../@*/self::x", "*/@*/self::x", "*/@*/..", "@*[self::x]", "@*[self::*]", "*[self::a]/@*[.. = ..]", "self::*/@*/self::node()",
		"//@*/self::x", "//@*/self::*", "//namespace::*/self::*", "//@*/../self::a", "//@*/../self::b", "//@x/../*", "//namespace::*/../self::*")
	return out
}

func c01Absolute() []string {
	return []string{
		"/", "/a", "/*", "/node()", "//b", "/a/b", "/a//b", "//a/b", "//a//*", "/descendant::a", "/child::node()", "/..", "/.", "//a/..", "//a/../@x",
		"//*[/a]", "//*[/b]", ".//*[/a/b]", "//a[//b]", "//*[count(/a)=1]", "//*[count(//b)=2]", "descendant-or-self::node()[/a]", "self::node()[/a]", "self::node()[/node()]",
		"count(/a)", "count(//a)", "count(/)", "count(/*)", "count(//node())", "count(/a/b)", "string(/)", "boolean(/a)", "boolean(/b)", "count(//a[/a])", "count(/descendant::node())",
		"count(/ | //a)", "count(//@*)", "count(//namespace::*)", "//a[/]", "self::node()[count(/descendant::*) > 1]",
	}
}

func c01TwoSteps(full bool) []string {
	axes := refxp.Axes
	tests := []string{"node()", "*", "a"}
	var out []string
	for _, a1 := range axes {
		for _, t1 := range tests {
			if a1 == "namespace" && t1 == "a" {
				continue
			}
			for _, a2 := range axes {
				for _, t2 := range tests {
					if a2 == "namespace" && t2 == "a" {
						continue
					}
					if !full && !(t1 == "node()" && t2 == "node()") && !(t1 == "*" && t2 == "a") && !(t1 == "*" && t2 == "*") && !(t1 == "node()" && t2 == "*") {
						continue
					}
					out = append(out, a1+"::"+t1+"/"+a2+"::"+t2)
				}
			}
		}
	}
	return out
}

func c01Shapes(n int) [][]*adoc.Tm {
	return adoc.Forests(n, adoc.ShapeCfg{Names: []string{"a", "b"}, Leaves: []adoc.Kind{adoc.Text, adoc.Comment, adoc.PI}})
}

func C01(c *run.Check) {
	defer finishTriage()
	n := 4
	if !c.Quick() {
		n = 5
	}
	if v := os.Getenv("C01_N"); v != "" {
		fmt.Sscan(v, &n)
	}
	shapes := c01Shapes(n)
	singles := mustParse(c01SingleSteps())
	abs := mustParse(c01Absolute())
	two := mustParse(c01TwoSteps(!c.Quick()))
	for _, l := range [][]refExpr{singles, abs, two} {
		for _, e := range l {
			if e.Err != nil {
				fmt.Println("harness: reference parser rejects", e.Text, e.Err)
			}
		}
	}
	c.Rule = fmt.Sprintf("all ordered forests with <=%d non-attribute nodes over names {a,b} and leaf kinds {elem,text,comment,PI} x decorations D0-D3 (attributes, namespaces), built through a scripted Parser into the real store; EVERY node of every document (root, element, attribute, namespace, text, comment, PI) as context node x %d single steps/abbreviations + %d absolute-path placements + %d two-step paths; implementation result compared by node identity with the reference evaluator; non-trivial = distinct (expression, context kind, non-empty result size)", n, len(singles), len(abs), len(two))
	decos := []int{adoc.D0, adoc.D1, adoc.D2, adoc.D3}
	r := newXRunner(c, "C01", c01Env)
	type job struct {
		f    []*adoc.Tm
		deco int
	}
	var jobs []job
	for _, f := range shapes {
		for _, d := range decos {
			// quick: the largest shapes only undecorated and with namespaces (D3)
			if c.Quick() && treeSize(f) == n && d != adoc.D0 && d != adoc.D3 {
				continue
			}
			jobs = append(jobs, job{f, d})
		}
	}
	gen := func(i int) *adoc.Doc { return adoc.Instantiate(jobs[i].f, jobs[i].deco) }
	r.runGrid(len(jobs), gen, append(append([]refExpr{}, singles...), abs...), nil)
	// two-step paths on the documents with at most twoMax nodes
	twoMax := 3
	if !c.Quick() {
		twoMax = 4
	}
	var small []int
	for i, j := range jobs {
		if treeSize(j.f) <= twoMax {
			small = append(small, i)
		}
	}
	r.runGrid(len(small), func(i int) *adoc.Doc { return gen(small[i]) }, two, nil)
	for i := 5; i < len(jobs); i += 1777 {
		c.Sample(map[string]string{"doc": gen(i).String(), "context": "every node", "expr": singles[(i/7)%len(singles)].Text})
	}
	c.Set("two_step_documents", len(small))
	c.Set("documents", len(jobs))
	c.Set("shape_bound_nodes", n)
	c.Assume("reference evaluator refxp (validated by its self-test); namespace/attribute order within one element is taken from the implementation; name tests on the namespace axis are not compared")
}

func treeSize(f []*adoc.Tm) int {
	n := 0
	var walk func(t *adoc.Tm)
	walk = func(t *adoc.Tm) {
		n++
		for _, k := range t.Kids {
			walk(k)
		}
	}
	for _, t := range f {
		walk(t)
	}
	return n
}

func init() {
	Registry["C01"] = Prop{"exploration", C01}
	replayers["C01"] = func(raw json.RawMessage) string {
		var x XCase
		if err := json.Unmarshal(raw, &x); err != nil {
			return err.Error()
		}
		return replayX(x, false)
	}
}
