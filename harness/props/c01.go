package props

import (
	"encoding/json"
	"fmt"
	"os"

	"xv/impl"

	"xv/adoc"
	"xv/refxp"
	"xv/run"
)

// ---- C01: location steps select exactly the XPath 1.0 axis/node-test set ----

var c01Env = EnvSpec{NS: map[string]string{"p": adoc.URI_U, "q": adoc.URI_V}}

func c01SingleSteps() []string {
	tests := []string{"node()", "*", "a", "text()", "comment()", "processing-instruction()", "processing-instruction('t')", "b", "p:a", "p:*", "*:a", "q:*"}
	var out []string
	for _, ax := range refxp.Axes {
		for _, t := range tests {
			if ax == "namespace" && !(t == "node()" || t == "*" || t == "text()") {
				continue // name tests on the namespace axis are outside the property
			}
			out = append(out, ax+"::"+t)
		}
	}
	out = append(out, "a", "@x", ".", "..", "*", "@*", "node()", "text()", "//a", "//*", "//@x", "//@*", "//node()", ".//a", "../a", "../*", "../@x", "./a", "//.", "//..", "@p:x", "@p:*", "@*:x", "p:a", "p:*", "*:a",
		// the principal node type changes along a path
		"@*/self::*", "@x/self::x", "@*/self::node()", "namespace::*/self::*", "@*/../self::*", "@x/../self::a", "@*/parent::*", "namespace::*/parent::*/self::*", "@*/ancestor-or-self::*", "@*/descendant-or-self::*",
		"@*/./self::*", "namespace::*/../*", "@*/../@*", "@*/../namespace::*", "namespace::*/../@*/self::x", "*/@*/self::x", "*/@*/..", "@*[self::x]", "@*[self::*]", "*[self::a]/@*[.. = ..]", "self::*/@*/self::node()",
		"//@*/self::x", "//@*/self::*", "//namespace::*/self::*", "//@*/../self::a", "//@*/../self::b", "//@x/../*", "//namespace::*/../self::*")
	return out
}

func c01Absolute() []string {
	return []string{
		"/", "/a", "/*", "/node()", "//b", "/a/b", "/a//b", "//a/b", "//a//*", "/descendant::a", "/child::node()", "/..", "/.", "//a/..", "//a/../@x",
		"//*[/a]", "//*[/b]", ".//*[/a/b]", "//a[//b]", "//*[count(/a)=1]", "//*[count(//b)=2]", "descendant-or-self::node()[/a]", "self::node()[/a]", "self::node()[/node()]",
		"count(/a)", "count(//a)", "count(/)", "count(/*)", "count(//node())", "count(/a/b)", "string(/)", "boolean(/a)", "boolean(/b)", "count(//a[/a])", "count(/descendant::node())",
		"count(/ | //a)", "count(//@*)", "count(//namespace::*)", "//a[/]", "self::node()[count(/descendant::*) > 1]",
	}
}

func c01TwoSteps(full bool) []string {
	axes := refxp.Axes
	tests := []string{"node()", "*", "a"}
	var out []string
	for _, a1 := range axes {
		for _, t1 := range tests {
			if a1 == "namespace" && t1 == "a" {
				continue
			}
			for _, a2 := range axes {
				for _, t2 := range tests {
					if a2 == "namespace" && t2 == "a" {
						continue
					}
					if !full && !(t1 == "node()" && t2 == "node()") && !(t1 == "*" && t2 == "a") && !(t1 == "*" && t2 == "*") && !(t1 == "node()" && t2 == "*") {
						continue
					}
					out = append(out, a1+"::"+t1+"/"+a2+"::"+t2)
				}
			}
		}
	}
	return out
}

func c01Shapes(n int) [][]*adoc.Tm {
	return adoc.Forests(n, adoc.ShapeCfg{Names: []string{"a", "b"}, Leaves: []adoc.Kind{adoc.Text, adoc.Comment, adoc.PI}})
}

func C01(c *run.Check) {
	defer finishTriage()
	n := 4
	if !c.Quick() {
		n = 5
	}
	if v := os.Getenv("C01_N"); v != "" {
		fmt.Sscan(v, &n)
	}
	shapes := c01Shapes(n)
	singles := mustParse(c01SingleSteps())
	abs := mustParse(c01Absolute())
	two := mustParse(c01TwoSteps(!c.Quick()))
	for _, l := range [][]refExpr{singles, abs, two} {
		for _, e := range l {
			if e.Err != nil {
				fmt.Println("harness: reference parser rejects", e.Text, e.Err)
			}
		}
	}
	c.Rule = fmt.Sprintf("all ordered forests with <=%d non-attribute nodes over names {a,b} and leaf kinds {elem,text,comment,PI} x decorations D0-D3, D5 (attributes, namespaces declared/overridden/merely inherited by plain empty elements), built through a scripted Parser into the real store; EVERY node of every document (root, element, attribute, namespace, text, comment, PI) as context node x %d single steps/abbreviations + %d absolute-path placements + %d two-step paths; implementation result compared by node identity with the reference evaluator; non-trivial = distinct (expression, context kind, non-empty result size)", n, len(singles), len(abs), len(two))
	decos := []int{adoc.D0, adoc.D1, adoc.D2, adoc.D3, adoc.D5}
	r := newXRunner(c, "C01", c01Env)
	type job struct {
		f    []*adoc.Tm
		deco int
	}
	var jobs []job
	for _, f := range shapes {
		for _, d := range decos {
			// quick: the largest shapes only undecorated and with namespaces (D3)
			if c.Quick() && treeSize(f) == n && d != adoc.D0 && d != adoc.D3 && d != adoc.D5 {
				continue
			}
			jobs = append(jobs, job{f, d})
		}
	}
	gen := func(i int) *adoc.Doc { return adoc.Instantiate(jobs[i].f, jobs[i].deco) }
	r.runGrid(len(jobs), gen, append(append([]refExpr{}, singles...), abs...), nil)
	// two-step paths on the documents with at most twoMax nodes
	twoMax := 3
	if !c.Quick() {
		twoMax = 4
	}
	var small []int
	for i, j := range jobs {
		if treeSize(j.f) <= twoMax {
			small = append(small, i)
		}
	}
	r.runGrid(len(small), func(i int) *adoc.Doc { return gen(small[i]) }, two, nil)
	// the structural laws of the statement, checked on the implementation's own
	// answers (independently of the reference evaluator)
	c01Laws(c, len(jobs), gen)
	for i := 5; i < len(jobs); i += 1777 {
		c.Sample(map[string]string{"doc": gen(i).String(), "context": "every node", "expr": singles[(i/7)%len(singles)].Text})
	}
	c.Set("two_step_documents", len(small))
	c.Set("documents", len(jobs))
	c.Set("shape_bound_nodes", n)
	c.Assume("reference evaluator refxp (validated by its self-test); namespace/attribute order within one element is taken from the implementation; name tests on the namespace axis are not compared")
}

func treeSize(f []*adoc.Tm) int {
	n := 0
	var walk func(t *adoc.Tm)
	walk = func(t *adoc.Tm) {
		n++
		for _, k := range t.Kids {
			walk(k)
		}
	}
	for _, t := range f {
		walk(t)
	}
	return n
}

func init() {
	Registry["C01"] = Prop{"exploration", C01}
	replayers["C01"] = func(raw json.RawMessage) string {
		var x XCase
		if err := json.Unmarshal(raw, &x); err != nil {
			return err.Error()
		}
		return replayX(x, false)
	}
}

// c01Laws: for every non-attribute, non-namespace node the ancestor,
// descendant, following, preceding and self axes partition all such nodes;
// every axis is the converse of its dual; the ancestor axes reach the root;
// the root has no parent and no siblings while its children do have siblings;
// an absolute path selects the same set from every context node.
func c01Laws(c *run.Check, n int, gen func(i int) *adoc.Doc) {
	axes := []string{"ancestor", "descendant", "following", "preceding", "self", "child", "parent", "following-sibling", "preceding-sibling", "ancestor-or-self"}
	duals := [][2]string{{"child", "parent"}, {"descendant", "ancestor"}, {"following", "preceding"}, {"following-sibling", "preceding-sibling"}}
	run.ParallelW((n+63)/64, func(w, ci int) {
		if c.Violations() > 0 || c.TimeUp() {
			return
		}
		cache := newExprCache()
		for di := ci * 64; di < min((ci+1)*64, n); di++ {
			d := gen(di)
			b, err := impl.Bind(d)
			if err != nil {
				return
			}
			rd := b.Doc
			sets := map[string]map[int]map[int]bool{} // axis -> context id -> member ids
			for _, ax := range axes {
				g, _ := cache.get(ax + "::node()")
				sets[ax] = map[int]map[int]bool{}
				for _, x := range rd.Nodes {
					c.Evaluations.Add(1)
					o := ExecImpl(b, b.ToCur[x], g, nil)
					m := map[int]bool{}
					for _, id := range o.Nodes {
						m[id] = true
					}
					sets[ax][x.ID] = m
				}
			}
			fail := func(msg string, x *adoc.Node) {
				c.Violation(MakeXCase("C01/law", rd, x, msg, EnvSpec{}, Outcome{}, Outcome{}), fmt.Sprintf("[law] %s; context %s in %s", msg, x.Describe(), rd.String()))
			}
			gAbs, _ := cache.get("//node() | //@* | //namespace::*")
			var absRef string
			for _, x := range rd.Nodes {
				o := ExecImpl(b, b.ToCur[x], gAbs, nil)
				key := fmt.Sprint(sortedCopy(o.Nodes))
				if absRef == "" {
					absRef = key
				} else if key != absRef {
					fail("the absolute path //node() | //@* | //namespace::* selects a different set from this context node", x)
					return
				}
				if !x.IsTreeNode() {
					continue
				}
				for _, y := range rd.Nodes {
					if !y.IsTreeNode() {
						continue
					}
					cnt := 0
					for _, ax := range []string{"ancestor", "descendant", "following", "preceding", "self"} {
						if sets[ax][x.ID][y.ID] {
							cnt++
						}
					}
					if cnt != 1 {
						fail(fmt.Sprintf("%s lies on %d of the five partitioning axes (ancestor, descendant, following, preceding, self)", y.Describe(), cnt), x)
						return
					}
					for _, du := range duals {
						if sets[du[0]][x.ID][y.ID] != sets[du[1]][y.ID][x.ID] {
							fail(fmt.Sprintf("%s::node() contains %s but %s::node() from there does not lead back (or vice versa)", du[0], y.Describe(), du[1]), x)
							return
						}
					}
				}
				if x.Kind != adoc.Root && !sets["ancestor"][x.ID][0] {
					fail("the root is not on the ancestor axis", x)
					return
				}
			}
			root := rd.Root
			if len(sets["parent"][0]) != 0 || len(sets["following-sibling"][0]) != 0 || len(sets["preceding-sibling"][0]) != 0 {
				fail("the root node has a parent or siblings", root)
				return
			}
			for i, ch := range root.Children {
				if len(sets["following-sibling"][ch.ID]) != len(root.Children)-1-i || len(sets["preceding-sibling"][ch.ID]) != i {
					fail("a child of the root does not see its siblings", ch)
					return
				}
			}
		}
	})
}
