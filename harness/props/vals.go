package props

import (
	"fmt"
	"math"

	"github.com/ChrisTrenkamp/xsel"

	"xv/adoc"
	"xv/impl"
	"xv/refxp"
	"xv/run"
)

// vrunner evaluates expressions whose operands come in through variable
// bindings: one compiled `f($a,$b)` serves thousands of operand tuples.
type vrunner struct {
	c        *run.Check
	kind     string
	signZero bool
	// judge overrides the default comparison (SameValue); returns "" if ok.
	judge func(e refExpr, vals []VarSpec, got, want Outcome) string
	known func(e refExpr, vals []VarSpec, got, want Outcome) string
}

// vdoc is the fixed document value properties run against: elements whose
// string-values are the given texts, so that node-set operands exist.
func vdoc(texts []string) *adoc.Doc {
	d := adoc.NewDoc()
	r := adoc.E("r")
	d.Root.Add(r)
	for _, t := range texts {
		e := adoc.E("e")
		if t != "" {
			e.Add(adoc.T(t))
		}
		r.Add(e)
	}
	return d.Finish()
}

func numVar(name string, f float64) VarSpec {
	s := fmtNum(f)
	switch {
	case math.IsNaN(f):
		s = "NaN"
	case math.IsInf(f, 1):
		s = "Infinity"
	case math.IsInf(f, -1):
		s = "-Infinity"
	default:
		s = fmt.Sprintf("%v", f)
		if f == 0 && math.Signbit(f) {
			s = "-0"
		}
	}
	return VarSpec{Local: name, Type: "number", Num: s}
}
func strVar(name, s string) VarSpec       { return VarSpec{Local: name, Type: "string", Str: s} }
func boolVar(name string, b bool) VarSpec { return VarSpec{Local: name, Type: "boolean", Bool: b} }
func setVar(name string, paths ...string) VarSpec {
	return VarSpec{Local: name, Type: "node-set", Nodes: paths}
}

func renameVar(v VarSpec, name string) VarSpec { v.Local = name; return v }

func descVar(v VarSpec) string {
	switch v.Type {
	case "number":
		return "number " + v.Num
	case "string":
		return fmt.Sprintf("string %q", v.Str)
	case "boolean":
		return fmt.Sprint("boolean ", v.Bool)
	}
	return fmt.Sprint("node-set ", v.Nodes)
}

// vcase is the replay artefact of a value case.
type vcase struct {
	Kind   string       `json:"kind"`
	Events []impl.Event `json:"events"`
	Ctx    string       `json:"ctx"`
	Expr   string       `json:"expr"`
	Env    EnvSpec      `json:"env"`
	Want   string       `json:"want"`
	Got    string       `json:"got"`
	Why    string       `json:"why,omitempty"`
}

// vworker is per-goroutine state.
type vworker struct {
	b     *impl.Binding
	cache *exprCache
}

func newVWorker(d *adoc.Doc) *vworker {
	b, err := impl.Bind(d.Clone().Finish())
	if err != nil {
		panic(err)
	}
	return &vworker{b: b, cache: newExprCache()}
}

// one evaluates e with the given variables from context node ctxPath on both
// sides and reports a disagreement. Returns true when it agreed.
func (r *vrunner) one(w *vworker, ctxPath string, e refExpr, vals []VarSpec) bool {
	return r.oneK(w, ctxPath, e, vals, true)
}

// oneLit is one() for expressions used only once: the compiled query is not
// kept (a compiled query retains its whole parse forest).
func (r *vrunner) oneLit(w *vworker, ctxPath string, e refExpr) bool {
	return r.oneK(w, ctxPath, e, nil, false)
}

func (r *vrunner) oneK(w *vworker, ctxPath string, e refExpr, vals []VarSpec, keep bool) bool {
	env := EnvSpec{Vars: vals}
	rd := w.b.Doc
	ctx := rd.Resolve(ctxPath)
	var want Outcome
	if e.Err != nil {
		want = Outcome{Err: true, ErrText: "syntax: " + e.Err.Error()}
	} else {
		want = RefOutcome(refxp.Eval(e.AST, ctx, env.RefEnv(rd)))
	}
	var g *xsel.Grammar
	var bo Outcome
	if keep {
		g, bo = w.cache.get(e.Text)
	} else {
		g, bo = BuildImpl(e.Text)
	}
	got := bo
	if g != nil {
		got = ExecImpl(w.b, w.b.ToCur[ctx], g, env.ImplSettings(w.b))
	}
	why := ""
	if r.judge != nil {
		why = r.judge(e, vals, got, want)
	} else if !SameValue(got, want, r.signZero) || IsPanicErr(got) {
		why = "differs from the reference"
	}
	if why == "" {
		return true
	}
	if r.known != nil {
		if id := r.known(e, vals, got, want); id != "" {
			r.c.Known(id, fmt.Sprintf("%s with %s -> %s (XPath: %s)", e.Text, descVars(vals), got, want))
			return true
		}
	}
	vc := vcase{Kind: r.kind, Events: impl.Events(rd), Ctx: ctxPath, Expr: e.Text, Env: env, Want: want.String(), Got: got.String(), Why: why}
	summary := fmt.Sprintf("[%s] expr=%s vars={%s} ctx=%s want=%s got=%s (%s)", r.kind, e.Text, descVars(vals), ctxPath, want, got, why)
	if triage {
		tri.add(e.Text+" "+typesOf(vals), summary)
	} else {
		r.c.Violation(vc, summary)
	}
	return false
}

func descVars(vals []VarSpec) string {
	s := ""
	for i, v := range vals {
		if i > 0 {
			s += ", "
		}
		s += "$" + v.Local + "=" + descVar(v)
	}
	return s
}

func typesOf(vals []VarSpec) string {
	s := ""
	for _, v := range vals {
		s += v.Type[:3] + " "
	}
	return s
}

// replayV re-runs a stored value case.
func replayV(vc vcase, signZero bool, judge func(e refExpr, vals []VarSpec, got, want Outcome) string) string {
	d := impl.FromEvents(vc.Events)
	b, err := impl.Bind(d)
	if err != nil {
		return err.Error()
	}
	ctx := b.Doc.Resolve(vc.Ctx)
	ast, perr := refxp.Parse(vc.Expr, refxp.Options{})
	var want Outcome
	if perr != nil {
		want = Outcome{Err: true, ErrText: perr.Error()}
	} else {
		want = RefOutcome(refxp.Eval(ast, ctx, vc.Env.RefEnv(b.Doc)))
	}
	g, bo := BuildImpl(vc.Expr)
	got := bo
	if g != nil {
		got = ExecImpl(b, b.ToCur[ctx], g, vc.Env.ImplSettings(b))
	}
	fmt.Printf("expr: %s\nvars: %s\nwant: %s\ngot:  %s\n", vc.Expr, descVars(vc.Env.Vars), want, got)
	if judge != nil {
		return judge(refExpr{vc.Expr, ast, perr}, vc.Env.Vars, got, want)
	}
	if !SameValue(got, want, signZero) || IsPanicErr(got) {
		return fmt.Sprintf("expected %s, got %s", want, got)
	}
	return ""
}

var _ = xsel.Number(0)

// permute calls f with every permutation of l (Heap's algorithm; f must copy).
func permute(l []string, f func([]string)) {
	a := append([]string{}, l...)
	var rec func(k int)
	rec = func(k int) {
		if k <= 1 {
			f(a)
			return
		}
		for i := 0; i < k; i++ {
			rec(k - 1)
			if k%2 == 0 {
				a[i], a[k-1] = a[k-1], a[i]
			} else {
				a[0], a[k-1] = a[k-1], a[0]
			}
		}
	}
	rec(len(a))
}
