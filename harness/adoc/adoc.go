// Package adoc is the abstract document model of the harness: a plain tree
// datatype that shares no code with the library under test.  It is the state
// space the explorers enumerate (documents, context nodes) and the structure
// the reference evaluator (refxp) works on.
package adoc

import (
	"fmt"
	"sort"
	"strings"
)

type Kind int

const (
	Root Kind = iota
	Elem
	Attr
	NS
	Text
	Comment
	PI
)

func (k Kind) String() string {
	return [...]string{"root", "elem", "attr", "ns", "text", "comment", "pi"}[k]
}

const XMLNS = "http://www.w3.org/XML/1998/namespace"

type Decl struct {
	Prefix, URI string
}

// Node is one node of the XPath data model.
//
//	Elem:    Space/Local expanded name, Prefix is a serialisation hint
//	Attr:    Space/Local, Value, Prefix hint
//	NS:      Local = prefix, Value = URI
//	Text:    Value
//	Comment: Value
//	PI:      Local = target, Value = data
type Node struct {
	ID       int // document order index, valid after Finish
	Kind     Kind
	Space    string
	Local    string
	Value    string
	Prefix   string
	Parent   *Node
	Children []*Node
	Attrs    []*Node
	NS       []*Node // in-scope namespace nodes (computed by Finish)
	Decls    []Decl  // namespace declarations carried by this element, in order
	// RawNS: when true the NS list is taken as given (Finish does not
	// recompute it); used when a tree is read back from an implementation.
}

type Doc struct {
	Root  *Node
	Nodes []*Node // all nodes in document order
	// ImplicitXML: when true every element implicitly declares the xml prefix
	// (this is what the XML adaptor does); affects Finish only.
	ImplicitXML bool
	// RepeatDecls: the event stream reports every namespace declaration twice in
	// a row (the XML adaptor does that for default-namespace declarations); the
	// tree must be the same - the second report replaces the first in place.
	RepeatDecls bool
}

func NewDoc() *Doc {
	return &Doc{Root: &Node{Kind: Root}}
}

func (n *Node) Add(c *Node) *Node {
	c.Parent = n
	switch c.Kind {
	case Attr:
		n.Attrs = append(n.Attrs, c)
	case NS:
		n.NS = append(n.NS, c)
	default:
		n.Children = append(n.Children, c)
	}
	return c
}

func E(local string, kids ...*Node) *Node {
	n := &Node{Kind: Elem, Local: local}
	for _, k := range kids {
		n.Add(k)
	}
	return n
}
func ENS(space, prefix, local string, kids ...*Node) *Node {
	n := E(local, kids...)
	n.Space = space
	n.Prefix = prefix
	return n
}
func A(local, value string) *Node { return &Node{Kind: Attr, Local: local, Value: value} }
func ANS(space, prefix, local, value string) *Node {
	return &Node{Kind: Attr, Space: space, Prefix: prefix, Local: local, Value: value}
}
func T(v string) *Node         { return &Node{Kind: Text, Value: v} }
func C(v string) *Node         { return &Node{Kind: Comment, Value: v} }
func P(target, v string) *Node { return &Node{Kind: PI, Local: target, Value: v} }
func (n *Node) Declare(prefix, uri string) *Node {
	n.Decls = append(n.Decls, Decl{prefix, uri})
	return n
}

// Finish computes in-scope namespace nodes for every element (inherited,
// overridden by prefix; declared ones first in declaration order, then the
// inherited ones that are not re-declared, in the parent's order) and numbers
// all nodes in document order: element < its namespace nodes < its
// attributes < its children.
func (d *Doc) Finish() *Doc {
	d.computeNS(d.Root, nil)
	d.Renumber()
	return d
}

func (d *Doc) computeNS(n *Node, inherited []*Node) {
	if n.Kind == Elem {
		var list []*Node
		seen := map[string]bool{}
		decls := n.Decls
		if d.ImplicitXML {
			decls = append([]Decl{{"xml", XMLNS}}, decls...)
		}
		for _, dc := range decls {
			if dc.Prefix == "" && dc.URI == "" {
				// xmlns="" un-declares the default namespace: no node, and the
				// inherited default binding is not passed on
				seen[""] = true
				continue
			}
			if seen[dc.Prefix] {
				// later declaration of the same prefix replaces the earlier one
				for _, x := range list {
					if x.Local == dc.Prefix {
						x.Value = dc.URI
					}
				}
				continue
			}
			seen[dc.Prefix] = true
			list = append(list, &Node{Kind: NS, Local: dc.Prefix, Value: dc.URI, Parent: n})
		}
		for _, in := range inherited {
			if !seen[in.Local] {
				list = append(list, &Node{Kind: NS, Local: in.Local, Value: in.Value, Parent: n})
			}
		}
		n.NS = list
		inherited = list
	}
	for _, c := range n.Children {
		d.computeNS(c, inherited)
	}
}

// Renumber assigns document-order IDs using the current list orders.
func (d *Doc) Renumber() {
	d.Nodes = d.Nodes[:0]
	var walk func(n *Node)
	walk = func(n *Node) {
		n.ID = len(d.Nodes)
		d.Nodes = append(d.Nodes, n)
		for _, x := range n.NS {
			x.Parent = n
			x.ID = len(d.Nodes)
			d.Nodes = append(d.Nodes, x)
		}
		for _, x := range n.Attrs {
			x.Parent = n
			x.ID = len(d.Nodes)
			d.Nodes = append(d.Nodes, x)
		}
		for _, c := range n.Children {
			c.Parent = n
			walk(c)
		}
	}
	walk(d.Root)
}

// StringValue is the XPath string-value of a node.
func (n *Node) StringValue() string {
	switch n.Kind {
	case Root, Elem:
		var sb strings.Builder
		var walk func(x *Node)
		walk = func(x *Node) {
			for _, c := range x.Children {
				if c.Kind == Text {
					sb.WriteString(c.Value)
				} else if c.Kind == Elem {
					walk(c)
				}
			}
		}
		walk(n)
		return sb.String()
	}
	return n.Value
}

// IsTreeNode reports whether the node is neither attribute nor namespace.
func (n *Node) IsTreeNode() bool { return n.Kind != Attr && n.Kind != NS }

// Path returns a stable textual address of a node inside its document, used in
// replay files: e.g. "/", "/0/1", "/0/@1", "/0/ns:2".
func (n *Node) Path() string {
	if n.Kind == Root {
		return "/"
	}
	p := n.Parent
	var idx int
	var tag string
	switch n.Kind {
	case Attr:
		tag = "@"
		idx = indexOf(p.Attrs, n)
	case NS:
		tag = "ns:"
		idx = indexOf(p.NS, n)
	default:
		idx = indexOf(p.Children, n)
	}
	pp := p.Path()
	if pp == "/" {
		pp = ""
	}
	return fmt.Sprintf("%s/%s%d", pp, tag, idx)
}

func indexOf(l []*Node, n *Node) int {
	for i, x := range l {
		if x == n {
			return i
		}
	}
	return -1
}

// Resolve finds the node addressed by a Path() string.
func (d *Doc) Resolve(path string) *Node {
	n := d.Root
	if path == "/" {
		return n
	}
	for _, seg := range strings.Split(strings.TrimPrefix(path, "/"), "/") {
		var list []*Node
		switch {
		case strings.HasPrefix(seg, "@"):
			list = n.Attrs
			seg = seg[1:]
		case strings.HasPrefix(seg, "ns:"):
			list = n.NS
			seg = seg[3:]
		default:
			list = n.Children
		}
		var i int
		fmt.Sscanf(seg, "%d", &i)
		if i < 0 || i >= len(list) {
			return nil
		}
		n = list[i]
	}
	return n
}

// Describe gives a short human-readable label of a node.
func (n *Node) Describe() string {
	switch n.Kind {
	case Root:
		return "root"
	case Elem:
		return "<" + qn(n.Space, n.Local) + ">@" + n.Path()
	case Attr:
		return "@" + qn(n.Space, n.Local) + "=" + n.Value + "@" + n.Path()
	case NS:
		return "ns(" + n.Local + "=" + n.Value + ")@" + n.Path()
	case Text:
		return fmt.Sprintf("text(%q)@%s", n.Value, n.Path())
	case Comment:
		return fmt.Sprintf("comment(%q)@%s", n.Value, n.Path())
	case PI:
		return fmt.Sprintf("pi(%s %q)@%s", n.Local, n.Value, n.Path())
	}
	return "?"
}

func qn(space, local string) string {
	if space == "" {
		return local
	}
	return "{" + space + "}" + local
}

// String renders the document in a compact XML-like notation (not meant to be
// parsed; used in samples and replay files for the reader's benefit).
func (d *Doc) String() string {
	var sb strings.Builder
	var walk func(n *Node)
	walk = func(n *Node) {
		switch n.Kind {
		case Root:
			for _, c := range n.Children {
				walk(c)
			}
		case Elem:
			sb.WriteString("<" + qn(n.Space, n.Local))
			for _, dc := range n.Decls {
				if dc.Prefix == "" {
					fmt.Fprintf(&sb, " xmlns=%q", dc.URI)
				} else {
					fmt.Fprintf(&sb, " xmlns:%s=%q", dc.Prefix, dc.URI)
				}
			}
			for _, a := range n.Attrs {
				fmt.Fprintf(&sb, " %s=%q", qn(a.Space, a.Local), a.Value)
			}
			if len(n.Children) == 0 {
				sb.WriteString("/>")
				return
			}
			sb.WriteString(">")
			for _, c := range n.Children {
				walk(c)
			}
			sb.WriteString("</" + n.Local + ">")
		case Text:
			fmt.Fprintf(&sb, "%q", n.Value)
		case Comment:
			sb.WriteString("<!--" + n.Value + "-->")
		case PI:
			sb.WriteString("<?" + n.Local + " " + n.Value + "?>")
		}
	}
	walk(d.Root)
	return sb.String()
}

// Canon is a canonical structural rendering including namespace nodes, used
// for state de-duplication and tree comparison.
func (d *Doc) Canon() string {
	var sb strings.Builder
	var walk func(n *Node)
	walk = func(n *Node) {
		switch n.Kind {
		case Root:
			sb.WriteString("R[")
		case Elem:
			sb.WriteString("E" + qn(n.Space, n.Local) + "{")
			ns := make([]string, 0, len(n.NS))
			for _, x := range n.NS {
				ns = append(ns, x.Local+"="+x.Value)
			}
			sort.Strings(ns)
			sb.WriteString(strings.Join(ns, ","))
			sb.WriteString("}(")
			as := make([]string, 0, len(n.Attrs))
			for _, a := range n.Attrs {
				as = append(as, fmt.Sprintf("%s=%q", qn(a.Space, a.Local), a.Value))
			}
			sort.Strings(as)
			sb.WriteString(strings.Join(as, ","))
			sb.WriteString(")[")
		case Text:
			fmt.Fprintf(&sb, "T%q", n.Value)
			return
		case Comment:
			fmt.Fprintf(&sb, "C%q", n.Value)
			return
		case PI:
			fmt.Fprintf(&sb, "P%s %q", n.Local, n.Value)
			return
		}
		for i, c := range n.Children {
			if i > 0 {
				sb.WriteString(" ")
			}
			walk(c)
		}
		sb.WriteString("]")
	}
	walk(d.Root)
	return sb.String()
}

// Clone deep-copies a document (without NS nodes; call Finish afterwards).
func (d *Doc) Clone() *Doc {
	nd := &Doc{ImplicitXML: d.ImplicitXML, RepeatDecls: d.RepeatDecls}
	var cp func(n *Node) *Node
	cp = func(n *Node) *Node {
		m := &Node{Kind: n.Kind, Space: n.Space, Local: n.Local, Value: n.Value, Prefix: n.Prefix}
		m.Decls = append([]Decl(nil), n.Decls...)
		for _, a := range n.Attrs {
			m.Add(cp(a))
		}
		for _, c := range n.Children {
			m.Add(cp(c))
		}
		return m
	}
	nd.Root = cp(d.Root)
	return nd
}
