package adoc

import "fmt"

// Tm is an immutable tree template produced by the shape enumerator.
type Tm struct {
	K    Kind
	Name string
	Kids []*Tm
	size int
}

// ShapeCfg fixes the alphabet of the shape universe S(n; names, leaves).
type ShapeCfg struct {
	Names  []string // element names
	Leaves []Kind   // non-element leaf kinds allowed (Text, Comment, PI)
}

type shapeEnum struct {
	cfg     ShapeCfg
	trees   map[int][]*Tm
	forests map[int][][]*Tm
}

func (s *shapeEnum) treesOf(k int) []*Tm {
	if t, ok := s.trees[k]; ok {
		return t
	}
	var out []*Tm
	if k == 1 {
		for _, n := range s.cfg.Names {
			out = append(out, &Tm{K: Elem, Name: n, size: 1})
		}
		for _, l := range s.cfg.Leaves {
			out = append(out, &Tm{K: l, size: 1})
		}
	} else {
		for _, n := range s.cfg.Names {
			for _, f := range s.forestsOf(k - 1) {
				out = append(out, &Tm{K: Elem, Name: n, Kids: f, size: k})
			}
		}
	}
	s.trees[k] = out
	return out
}

func (s *shapeEnum) forestsOf(n int) [][]*Tm {
	if f, ok := s.forests[n]; ok {
		return f
	}
	var out [][]*Tm
	if n == 0 {
		out = [][]*Tm{nil}
	} else {
		for k := 1; k <= n; k++ {
			for _, t := range s.treesOf(k) {
				for _, rest := range s.forestsOf(n - k) {
					f := make([]*Tm, 0, 1+len(rest))
					f = append(f, t)
					f = append(f, rest...)
					out = append(out, f)
				}
			}
		}
	}
	s.forests[n] = out
	return out
}

// Forests returns all ordered forests with 1..n non-attribute nodes, smallest
// first.
func Forests(n int, cfg ShapeCfg) [][]*Tm {
	s := &shapeEnum{cfg: cfg, trees: map[int][]*Tm{}, forests: map[int][][]*Tm{}}
	var out [][]*Tm
	for k := 1; k <= n; k++ {
		out = append(out, s.forestsOf(k)...)
	}
	return out
}

// Serialisable reports whether the forest is the content of a well-formed XML
// document: exactly one top-level element, no top-level text, and no two
// adjacent text siblings anywhere.
func Serialisable(f []*Tm) bool {
	elems := 0
	for _, t := range f {
		if t.K == Elem {
			elems++
		}
		if t.K == Text {
			return false
		}
	}
	if elems != 1 {
		return false
	}
	var ok func(kids []*Tm) bool
	ok = func(kids []*Tm) bool {
		for i, k := range kids {
			if i > 0 && k.K == Text && kids[i-1].K == Text {
				return false
			}
			if !ok(k.Kids) {
				return false
			}
		}
		return true
	}
	return ok(f)
}

// Decoration patterns (see DESIGN §1.1).
const (
	D0 = iota // none
	D1        // every element carries @x (value = running number)
	D2        // first element: @x @y + xmlns:p="u"; second element in namespace u
	D3        // nested re-declaration / override / default namespace
	D4        // xml:lang placements
	D5        // only the first element declares (two prefixes); every other element merely inherits (the third also carries @x)
	NDeco
)

const (
	URI_U = "urn:u"
	URI_V = "urn:v"
	URI_D = "urn:d"
)

// Instantiate turns a forest template into a document with the given
// decoration. Text/comment/PI values are short and distinct per node so that
// string-values distinguish nodes.
func Instantiate(f []*Tm, deco int) *Doc {
	d := NewDoc()
	cnt := 0
	elemNo := 0
	var mk func(t *Tm, depth int) *Node
	mk = func(t *Tm, depth int) *Node {
		cnt++
		switch t.K {
		case Text:
			return T(fmt.Sprintf("t%d", cnt))
		case Comment:
			return C(fmt.Sprintf("c%d", cnt))
		case PI:
			tg := "t"
			if cnt%2 == 0 {
				tg = "u"
			}
			return P(tg, fmt.Sprintf("p%d", cnt))
		}
		e := E(t.Name)
		elemNo++
		no := elemNo
		switch deco {
		case D1:
			e.Add(A("x", fmt.Sprint(no)))
		case D2:
			if no == 1 {
				e.Declare("p", URI_U)
				e.Add(A("x", "1"))
				e.Add(A("y", "2"))
			}
			if no == 2 {
				e.Space = URI_U
				e.Prefix = "p"
				e.Declare("p", URI_U)
				e.Add(ANS(URI_U, "p", "x", "3"))
			}
		case D3:
			switch no {
			case 1:
				e.Declare("p", URI_U)
				e.Declare("", URI_D)
				e.Space = URI_D
			case 2:
				e.Declare("p", URI_V) // override
				e.Space = URI_V
				e.Prefix = "p"
				e.Add(A("x", "1"))
			case 3:
				e.Declare("q", URI_U)
				e.Add(ANS(URI_U, "q", "y", "2"))
			}
		case D5:
			if no == 1 {
				e.Declare("p", URI_U)
				e.Declare("q", URI_V)
			}
			if no == 3 {
				e.Add(A("x", "3")) // an attribute on an element that only inherits its namespaces
			}
		case D4:
			switch no {
			case 1:
				e.Add(ANS(XMLNS, "xml", "lang", "en"))
			case 3:
				e.Add(ANS(XMLNS, "xml", "lang", "de-AT"))
			}
		}
		for _, k := range t.Kids {
			e.Add(mk(k, depth+1))
		}
		return e
	}
	for _, t := range f {
		d.Root.Add(mk(t, 0))
	}
	return d.Finish()
}
