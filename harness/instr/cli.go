// Package instr rewrites the command line tool's source for model checking
// (syntactic rules over go/ast; applied to /repo's CURRENT xsel/*.go on every
// run, so a changed tool is what gets explored) and assembles the overlay
// that injects the scheduler runtime into the xsel module.
package instr

import (
	"bytes"
	"encoding/json"
	"fmt"
	"go/ast"
	"go/format"
	"go/parser"
	"go/token"
	"os"
	"path/filepath"
	"strings"
)

const rtPath = "github.com/ChrisTrenkamp/xsel/verifrt"

// RewriteCLI rewrites one source file of package main.
func RewriteCLI(src []byte, filename string) ([]byte, []string, error) {
	fset := token.NewFileSet()
	f, err := parser.ParseFile(fset, filename, src, parser.ParseComments)
	if err != nil {
		return nil, nil, err
	}
	var notes []string
	usesOS := false
	// imports
	for _, imp := range f.Imports {
		switch imp.Path.Value {
		case `"sync"`:
			name := "sync"
			if imp.Name != nil {
				name = imp.Name.Name
			}
			imp.Name = ast.NewIdent(name)
			imp.Path.Value = `"` + rtPath + `/vsync"`
		case `"fmt"`:
			name := "fmt"
			if imp.Name != nil {
				name = imp.Name.Name
			}
			imp.Name = ast.NewIdent(name)
			imp.Path.Value = `"` + rtPath + `/vfmt"`
		case `"sync/atomic"`:
			notes = append(notes, "sync/atomic is not modelled")
		}
	}
	tmp := 0
	var rewriteStmts func(list []ast.Stmt) []ast.Stmt
	rewriteExpr := func(e ast.Expr) ast.Expr { return e }
	// expression rewriting: <-ch, os.Stdout, os.Stderr
	var exprVisitor func(n ast.Node) bool
	replaceExpr := func(e *ast.Expr) {
		switch v := (*e).(type) {
		case *ast.UnaryExpr:
			if v.Op == token.ARROW {
				*e = &ast.CallExpr{Fun: &ast.SelectorExpr{X: ast.NewIdent("verifrt"), Sel: ast.NewIdent("Recv")}, Args: []ast.Expr{v.X}}
			}
		case *ast.SelectorExpr:
			if id, ok := v.X.(*ast.Ident); ok && id.Name == "os" && (v.Sel.Name == "Stdout" || v.Sel.Name == "Stderr") {
				usesOS = true
				*e = &ast.SelectorExpr{X: ast.NewIdent("verifrt"), Sel: ast.NewIdent(v.Sel.Name)}
			}
		}
	}
	_ = rewriteExpr
	exprVisitor = func(n ast.Node) bool {
		switch v := n.(type) {
		case *ast.CallExpr:
			for i := range v.Args {
				replaceExpr(&v.Args[i])
			}
			replaceExpr(&v.Fun)
		case *ast.AssignStmt:
			for i := range v.Rhs {
				replaceExpr(&v.Rhs[i])
			}
		case *ast.ExprStmt:
			replaceExpr(&v.X)
		case *ast.ReturnStmt:
			for i := range v.Results {
				replaceExpr(&v.Results[i])
			}
		case *ast.BinaryExpr:
			replaceExpr(&v.X)
			replaceExpr(&v.Y)
		case *ast.ValueSpec:
			for i := range v.Values {
				replaceExpr(&v.Values[i])
			}
		case *ast.KeyValueExpr:
			replaceExpr(&v.Value)
		case *ast.ParenExpr:
			replaceExpr(&v.X)
		case *ast.SelectorExpr:
			replaceExpr(&v.X)
		case *ast.IfStmt:
			if v.Cond != nil {
				replaceExpr(&v.Cond)
			}
		case *ast.RangeStmt:
			replaceExpr(&v.X)
		case *ast.CompositeLit:
			for i := range v.Elts {
				replaceExpr(&v.Elts[i])
			}
		case *ast.SelectStmt:
			notes = append(notes, "select statement is not modelled")
		}
		return true
	}
	rewriteStmts = func(list []ast.Stmt) []ast.Stmt {
		var out []ast.Stmt
		for _, st := range list {
			switch v := st.(type) {
			case *ast.GoStmt:
				// evaluate the arguments now, run the call as a scheduler thread
				var pre []ast.Stmt
				call := v.Call
				for i, a := range call.Args {
					tmp++
					name := fmt.Sprintf("verifArg%d", tmp)
					pre = append(pre, &ast.AssignStmt{Lhs: []ast.Expr{ast.NewIdent(name)}, Tok: token.DEFINE, Rhs: []ast.Expr{a}})
					call.Args[i] = ast.NewIdent(name)
				}
				goCall := &ast.ExprStmt{X: &ast.CallExpr{
					Fun:  &ast.SelectorExpr{X: ast.NewIdent("verifrt"), Sel: ast.NewIdent("Go")},
					Args: []ast.Expr{&ast.FuncLit{Type: &ast.FuncType{Params: &ast.FieldList{}}, Body: &ast.BlockStmt{List: []ast.Stmt{&ast.ExprStmt{X: call}}}}},
				}}
				out = append(out, &ast.BlockStmt{List: append(pre, goCall)})
				continue
			case *ast.SendStmt:
				out = append(out, &ast.ExprStmt{X: &ast.CallExpr{Fun: &ast.SelectorExpr{X: ast.NewIdent("verifrt"), Sel: ast.NewIdent("Send")}, Args: []ast.Expr{v.Chan, v.Value}}})
				continue
			}
			out = append(out, st)
		}
		return out
	}
	// walk all blocks
	ast.Inspect(f, func(n ast.Node) bool {
		switch v := n.(type) {
		case *ast.BlockStmt:
			v.List = rewriteStmts(v.List)
		case *ast.CaseClause:
			v.Body = rewriteStmts(v.Body)
		case *ast.CommClause:
			v.Body = rewriteStmts(v.Body)
		case *ast.FuncDecl:
			if v.Name.Name == "main" && v.Recv == nil {
				v.Name.Name = "xselMain"
			}
		}
		return true
	})
	ast.Inspect(f, exprVisitor)
	// add the runtime import
	imp := &ast.ImportSpec{Name: ast.NewIdent("verifrt"), Path: &ast.BasicLit{Kind: token.STRING, Value: `"` + rtPath + `"`}}
	for _, d := range f.Decls {
		if gd, ok := d.(*ast.GenDecl); ok && gd.Tok == token.IMPORT {
			gd.Specs = append(gd.Specs, imp)
			break
		}
	}
	_ = usesOS
	var buf bytes.Buffer
	if err := format.Node(&buf, fset, f); err != nil {
		return nil, nil, err
	}
	out := buf.String()
	// keep the os import alive if its only uses were rewritten
	out += "\nvar _ = verifrt.Stdout\n"
	if !strings.Contains(strings.ReplaceAll(out, `"os"`, ""), "os.") {
		out += "var _ = os.Args\n"
	}
	return []byte(out), notes, nil
}

const vmain = `package main

import "github.com/ChrisTrenkamp/xsel/verifrt"

func main() { verifrt.RunMain(xselMain) }
`

// BuildCLIOverlay writes the rewritten sources and the overlay file into dir
// and returns the overlay path plus the rewriter's notes.
func BuildCLIOverlay(repo, harness, dir string) (string, []string, error) {
	replace := map[string]string{}
	var notes []string
	files, _ := filepath.Glob(filepath.Join(repo, "xsel", "*.go"))
	for _, p := range files {
		if strings.HasSuffix(p, "_test.go") {
			continue
		}
		src, err := os.ReadFile(p)
		if err != nil {
			return "", nil, err
		}
		out, n, err := RewriteCLI(src, p)
		if err != nil {
			return "", nil, err
		}
		notes = append(notes, n...)
		dst := filepath.Join(dir, "cli_"+filepath.Base(p))
		if err := os.WriteFile(dst, out, 0o644); err != nil {
			return "", nil, err
		}
		replace[p] = dst
	}
	mainPath := filepath.Join(dir, "zz_verif_main.go")
	os.WriteFile(mainPath, []byte(vmain), 0o644)
	replace[filepath.Join(repo, "xsel", "zz_verif_main.go")] = mainPath
	// the runtime as a virtual package of the xsel module
	sched, err := os.ReadFile(filepath.Join(harness, "sched", "sched.go"))
	if err != nil {
		return "", nil, err
	}
	schedSrc := strings.Replace(string(sched), "package sched", "package verifrt", 1)
	sp := filepath.Join(dir, "rt_sched.go")
	os.WriteFile(sp, []byte(schedSrc), 0o644)
	replace[filepath.Join(repo, "verifrt", "sched.go")] = sp
	replace[filepath.Join(repo, "verifrt", "vrt.go")] = filepath.Join(harness, "_verifrt", "vrt.go")
	replace[filepath.Join(repo, "verifrt", "vsync", "vsync.go")] = filepath.Join(harness, "_verifrt", "vsync", "vsync.go")
	replace[filepath.Join(repo, "verifrt", "vfmt", "vfmt.go")] = filepath.Join(harness, "_verifrt", "vfmt", "vfmt.go")
	ov, _ := json.MarshalIndent(map[string]interface{}{"Replace": replace}, "", " ")
	ovPath := filepath.Join(dir, "overlay.json")
	if err := os.WriteFile(ovPath, ov, 0o644); err != nil {
		return "", nil, err
	}
	return ovPath, notes, nil
}
