// Package verifrt is injected (through `go build -overlay`) into the xsel
// module when the command line tool is model checked: the rewritten
// xsel/xsel.go calls into it instead of using goroutines, channels,
// sync.WaitGroup and fmt/os output directly, so that every such operation is
// a scheduling point of the cooperative scheduler (sched.go, a copy of the
// harness scheduler).
package verifrt

import (
	"encoding/json"
	"fmt"
	"os"
	"strconv"
	"strings"
)

// S is the scheduler of this process.
var S *Sched

type WriteRec struct {
	Thread    int    `json:"thread"`
	Stream    string `json:"stream"`
	Text      string `json:"text"`
	AfterMain bool   `json:"afterMain"`
}

var (
	Writes   []WriteRec
	mainDone bool
	unsupported []string
)

// File stands for os.Stdout / os.Stderr.
type File struct{ name string }

var Stdout = &File{"stdout"}
var Stderr = &File{"stderr"}

func (f *File) Write(p []byte) (int, error) {
	S.Point("write " + f.name)
	Writes = append(Writes, WriteRec{Thread: S.Cur(), Stream: f.name, Text: string(p), AfterMain: mainDone})
	return len(p), nil
}
func (f *File) WriteString(s string) (int, error) { return f.Write([]byte(s)) }
func (f *File) Close() error                      { return nil }
func (f *File) Sync() error                       { return nil }
func (f *File) Name() string                      { return "/dev/" + f.name }
func (f *File) Fd() uintptr                       { return 1 }

var threadNo int

// Go replaces the go statement.
func Go(fn func()) {
	threadNo++
	S.Go("g"+strconv.Itoa(threadNo), fn)
	S.Point("go")
}

// Send replaces `ch <- v` on a buffered channel.
func Send[T any](ch chan T, v T) {
	if cap(ch) == 0 {
		unsupported = append(unsupported, "send on unbuffered channel")
		ch <- v
		return
	}
	S.Block("send", func() bool { return len(ch) < cap(ch) })
	ch <- v
}

// Recv replaces `<-ch` on a buffered channel.
func Recv[T any](ch chan T) T {
	if cap(ch) == 0 {
		unsupported = append(unsupported, "receive on unbuffered channel")
		return <-ch
	}
	S.Block("recv", func() bool { return len(ch) > 0 })
	return <-ch
}

// Unsupported records a construct the rewriter does not model.
func Unsupported(what string) { unsupported = append(unsupported, what) }

type report struct {
	Points      []Point    `json:"points"`
	Writes      []WriteRec `json:"writes"`
	Deadlock    bool       `json:"deadlock"`
	Diverged    string     `json:"diverged"`
	Panic       string     `json:"panic"`
	Unsupported []string   `json:"unsupported"`
	Truncated   bool       `json:"truncated"`
}

// RunMain runs the tool's main function as thread 0 under the schedule given
// in XV_SCHED_PREFIX and writes the execution record to XV_SCHED_OUT.
func RunMain(mainFn func()) {
	var prefix []int
	if p := os.Getenv("XV_SCHED_PREFIX"); p != "" {
		for _, f := range strings.Split(p, ",") {
			n, _ := strconv.Atoi(f)
			prefix = append(prefix, n)
		}
	}
	S = New(prefix)
	S.Go("main", func() {
		mainFn()
		mainDone = true // in a real process everything still running is killed now
	})
	msg := S.Run()
	rep := report{Points: S.Points, Writes: Writes, Deadlock: S.Deadlock, Diverged: S.Diverged, Panic: msg, Unsupported: unsupported, Truncated: S.Truncated}
	b, _ := json.Marshal(rep)
	if out := os.Getenv("XV_SCHED_OUT"); out != "" {
		os.WriteFile(out, b, 0o644)
	} else {
		fmt.Println(string(b))
	}
}
