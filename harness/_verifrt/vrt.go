// Package verifrt is injected (through `go build -overlay`) into the xsel
// module when the command line tool is model checked: the rewritten
// xsel/xsel.go calls into it instead of using goroutines, channels,
// sync.WaitGroup and fmt/os output directly, so that every such operation is
// a scheduling point of the cooperative scheduler (sched.go, a copy of the
// harness scheduler).
package verifrt

import (
	"encoding/json"
	"fmt"
	"hash/fnv"
	"os"
	"reflect"
	"strconv"
	"strings"
)

// S is the scheduler of this process.
var S *Sched

type WriteRec struct {
	Thread    int    `json:"thread"`
	Stream    string `json:"stream"`
	Text      string `json:"text"`
	AfterMain bool   `json:"afterMain"`
}

var (
	Writes      []WriteRec
	mainDone    bool
	unsupported []string
)

// File stands for os.Stdout / os.Stderr.
type File struct{ name string }

var Stdout = &File{"stdout"}
var Stderr = &File{"stderr"}

func (f *File) Write(p []byte) (int, error) {
	note("write " + f.name + " " + string(p))
	S.Point("write " + f.name)
	Writes = append(Writes, WriteRec{Thread: S.Cur(), Stream: f.name, Text: string(p), AfterMain: mainDone})
	writesHash = mixs(writesHash, fmt.Sprint(S.Cur(), f.name, mainDone, string(p)))
	return len(p), nil
}

// ---- state keys (for the explorer's pruning) ------------------------------------
//
// A thread's future is a function of the operations it has performed and the
// values it has observed (hist), the shared objects the shims model (channel
// contents, WaitGroup counters, mutex states), and - for the verdict - the
// sequence of writes so far. Shared memory the shims do not see must not be
// written after start-up; the harness checks that statically and does not
// prune otherwise.
var (
	hist       = map[int]uint64{}
	objs       []func() uint64
	writesHash uint64
	chans      = map[uintptr]*chanShadow{}
)

type chanShadow struct {
	id    int
	queue []string
}

func mixs(h uint64, s string) uint64 {
	f := fnv.New64a()
	var b [8]byte
	for i := 0; i < 8; i++ {
		b[i] = byte(h >> (8 * i))
	}
	f.Write(b[:])
	f.Write([]byte(s))
	return f.Sum64()
}

func note(s string) { hist[S.Cur()] = mixs(hist[S.Cur()], s) }

// P is a scheduling point of the running thread; the label (operation and
// operand) becomes part of the thread's history.
func P(label string) { note(label); S.Point(label) }

// B is a blocking scheduling point.
func B(label string, cond func() bool) { note(label); S.Block(label, cond) }

// Note records a value the running thread has observed.
func Note(s string) { note(s) }

// Register adds a shared object to the state key and returns its number.
func Register(state func() uint64) int {
	objs = append(objs, state)
	return len(objs)
}

func stateKey() uint64 {
	h := mixs(14695981039346656037, fmt.Sprint("cur", S.cur, "mainDone", mainDone))
	for _, t := range S.threads {
		h = mixs(h, fmt.Sprint(t.id, t.done, t.started, hist[t.id]))
	}
	for i, o := range objs {
		h = mixs(h, fmt.Sprint("obj", i, o()))
	}
	h = mixs(h, fmt.Sprint("w", writesHash))
	if h == 0 {
		h = 1
	}
	return h
}

func shadow[T any](ch chan T) *chanShadow {
	p := reflect.ValueOf(ch).Pointer()
	sh, ok := chans[p]
	if !ok {
		sh = &chanShadow{}
		chans[p] = sh
		sh.id = Register(func() uint64 { return mixs(uint64(len(sh.queue)), strings.Join(sh.queue, "\x00")) })
	}
	return sh
}
func (f *File) WriteString(s string) (int, error) { return f.Write([]byte(s)) }
func (f *File) Close() error                      { return nil }
func (f *File) Sync() error                       { return nil }
func (f *File) Name() string                      { return "/dev/" + f.name }
func (f *File) Fd() uintptr                       { return 1 }

var threadNo int

// Go replaces the go statement.
func Go(fn func()) {
	threadNo++
	id := S.Go("g"+strconv.Itoa(threadNo), fn)
	// the new thread's identity is its creator's history at the moment of creation
	hist[id] = mixs(hist[S.Cur()], "spawn "+strconv.Itoa(threadNo))
	P("go " + strconv.Itoa(threadNo))
}

// Send replaces `ch <- v` on a buffered channel.
func Send[T any](ch chan T, v T) {
	if cap(ch) == 0 {
		unsupported = append(unsupported, "send on unbuffered channel")
		ch <- v
		return
	}
	sh := shadow(ch)
	B("send #"+strconv.Itoa(sh.id)+" "+fmt.Sprint(v), func() bool { return len(ch) < cap(ch) })
	ch <- v
	sh.queue = append(sh.queue, fmt.Sprint(v))
}

// Recv replaces `<-ch` on a buffered channel.
func Recv[T any](ch chan T) T {
	if cap(ch) == 0 {
		unsupported = append(unsupported, "receive on unbuffered channel")
		return <-ch
	}
	sh := shadow(ch)
	B("recv #"+strconv.Itoa(sh.id), func() bool { return len(ch) > 0 })
	v := <-ch
	if len(sh.queue) > 0 {
		sh.queue = sh.queue[1:]
	}
	note("got " + fmt.Sprint(v))
	return v
}

// Unsupported records a construct the rewriter does not model.
func Unsupported(what string) { unsupported = append(unsupported, what) }

type report struct {
	Points      []Point    `json:"points"`
	Writes      []WriteRec `json:"writes"`
	Deadlock    bool       `json:"deadlock"`
	Diverged    string     `json:"diverged"`
	Panic       string     `json:"panic"`
	Unsupported []string   `json:"unsupported"`
	Truncated   bool       `json:"truncated"`
}

// RunMain runs the tool's main function as thread 0 under the schedule given
// in XV_SCHED_PREFIX and writes the execution record to XV_SCHED_OUT.
func RunMain(mainFn func()) {
	var prefix []int
	if p := os.Getenv("XV_SCHED_PREFIX"); p != "" {
		for _, f := range strings.Split(p, ",") {
			n, _ := strconv.Atoi(f)
			prefix = append(prefix, n)
		}
	}
	S = New(prefix)
	if os.Getenv("XV_SCHED_KEYS") != "" {
		S.KeyFn = stateKey
	}
	S.Go("main", func() {
		mainFn()
		mainDone = true // in a real process everything still running is killed now
	})
	msg := S.Run()
	rep := report{Points: S.Points, Writes: Writes, Deadlock: S.Deadlock, Diverged: S.Diverged, Panic: msg, Unsupported: unsupported, Truncated: S.Truncated}
	b, _ := json.Marshal(rep)
	if out := os.Getenv("XV_SCHED_OUT"); out != "" {
		os.WriteFile(out, b, 0o644)
	} else {
		fmt.Println(string(b))
	}
}
