// Package vsync replaces package sync in the rewritten command line tool.
package vsync

import (
	realsync "sync"

	vrt "github.com/ChrisTrenkamp/xsel/verifrt"
)

type WaitGroup struct{ n int }

func (w *WaitGroup) Add(d int) {
	vrt.S.Point("wg.Add")
	w.n += d
	if w.n < 0 {
		panic("sync: negative WaitGroup counter")
	}
}
func (w *WaitGroup) Done() { w.Add(-1) }
func (w *WaitGroup) Wait() { vrt.S.Block("wg.Wait", func() bool { return w.n == 0 }) }

type Mutex struct{ locked bool }

func (m *Mutex) Lock() {
	vrt.S.Block("mu.Lock", func() bool { return !m.locked })
	m.locked = true
}
func (m *Mutex) Unlock() {
	if !m.locked {
		panic("sync: unlock of unlocked mutex")
	}
	m.locked = false
	vrt.S.Point("mu.Unlock")
}
func (m *Mutex) TryLock() bool {
	vrt.S.Point("mu.TryLock")
	if m.locked {
		return false
	}
	m.locked = true
	return true
}

type RWMutex struct {
	w bool
	r int
}

func (m *RWMutex) Lock() {
	vrt.S.Block("rw.Lock", func() bool { return !m.w && m.r == 0 })
	m.w = true
}
func (m *RWMutex) Unlock() { m.w = false; vrt.S.Point("rw.Unlock") }
func (m *RWMutex) RLock() {
	vrt.S.Block("rw.RLock", func() bool { return !m.w })
	m.r++
}
func (m *RWMutex) RUnlock() { m.r--; vrt.S.Point("rw.RUnlock") }

// types the scheduler does not model are passed through (their use is reported)
type Once = realsync.Once
type Pool = realsync.Pool
type Map = realsync.Map
type Locker = realsync.Locker
type Cond = realsync.Cond

func NewCond(l Locker) *Cond {
	vrt.Unsupported("sync.Cond")
	return realsync.NewCond(l)
}
