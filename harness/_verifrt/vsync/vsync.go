// Package vsync replaces package sync in the rewritten command line tool.
package vsync

import (
	"strconv"
	realsync "sync"

	vrt "github.com/ChrisTrenkamp/xsel/verifrt"
)

type WaitGroup struct {
	n  int
	id int
}

func (w *WaitGroup) reg() string {
	if w.id == 0 {
		w.id = vrt.Register(func() uint64 { return uint64(int64(w.n)) })
	}
	return "#" + strconv.Itoa(w.id)
}

func (w *WaitGroup) Add(d int) {
	vrt.P("wg.Add " + w.reg() + " " + strconv.Itoa(d))
	w.n += d
	if w.n < 0 {
		panic("sync: negative WaitGroup counter")
	}
}
func (w *WaitGroup) Done() { w.Add(-1) }
func (w *WaitGroup) Wait() { vrt.B("wg.Wait "+w.reg(), func() bool { return w.n == 0 }) }

type Mutex struct {
	locked bool
	id     int
}

func (m *Mutex) reg() string {
	if m.id == 0 {
		m.id = vrt.Register(func() uint64 {
			if m.locked {
				return 1
			}
			return 0
		})
	}
	return "#" + strconv.Itoa(m.id)
}

func (m *Mutex) Lock() {
	vrt.B("mu.Lock "+m.reg(), func() bool { return !m.locked })
	m.locked = true
}
func (m *Mutex) Unlock() {
	if !m.locked {
		panic("sync: unlock of unlocked mutex")
	}
	m.locked = false
	vrt.P("mu.Unlock " + m.reg())
}
func (m *Mutex) TryLock() bool {
	vrt.P("mu.TryLock " + m.reg())
	if m.locked {
		vrt.Note("trylock=false")
		return false
	}
	m.locked = true
	vrt.Note("trylock=true")
	return true
}

type RWMutex struct {
	w  bool
	r  int
	id int
}

func (m *RWMutex) reg() string {
	if m.id == 0 {
		m.id = vrt.Register(func() uint64 {
			k := uint64(m.r) << 1
			if m.w {
				k |= 1
			}
			return k
		})
	}
	return "#" + strconv.Itoa(m.id)
}

func (m *RWMutex) Lock() {
	vrt.B("rw.Lock "+m.reg(), func() bool { return !m.w && m.r == 0 })
	m.w = true
}
func (m *RWMutex) Unlock() { m.w = false; vrt.P("rw.Unlock " + m.reg()) }
func (m *RWMutex) RLock() {
	vrt.B("rw.RLock "+m.reg(), func() bool { return !m.w })
	m.r++
}
func (m *RWMutex) RUnlock() { m.r--; vrt.P("rw.RUnlock " + m.reg()) }

// types the scheduler does not model are passed through (their use is reported)
type Once = realsync.Once
type Pool = realsync.Pool
type Map = realsync.Map
type Locker = realsync.Locker
type Cond = realsync.Cond

func NewCond(l Locker) *Cond {
	vrt.Unsupported("sync.Cond")
	return realsync.NewCond(l)
}
