// Package vfmt replaces package fmt in the rewritten command line tool: output
// to the standard streams becomes a logged scheduling point, everything else
// is forwarded to the real package.
package vfmt

import (
	realfmt "fmt"
	"io"

	vrt "github.com/ChrisTrenkamp/xsel/verifrt"
)

type Stringer = realfmt.Stringer
type Formatter = realfmt.Formatter
type State = realfmt.State
type GoStringer = realfmt.GoStringer
type Scanner = realfmt.Scanner
type ScanState = realfmt.ScanState

func Print(a ...any) (int, error)               { return vrt.Stdout.WriteString(realfmt.Sprint(a...)) }
func Printf(f string, a ...any) (int, error)    { return vrt.Stdout.WriteString(realfmt.Sprintf(f, a...)) }
func Println(a ...any) (int, error)             { return vrt.Stdout.WriteString(realfmt.Sprintln(a...)) }
func Fprint(w io.Writer, a ...any) (int, error) { return w.Write([]byte(realfmt.Sprint(a...))) }
func Fprintf(w io.Writer, f string, a ...any) (int, error) {
	return w.Write([]byte(realfmt.Sprintf(f, a...)))
}
func Fprintln(w io.Writer, a ...any) (int, error) { return w.Write([]byte(realfmt.Sprintln(a...))) }
func Sprint(a ...any) string                      { return realfmt.Sprint(a...) }
func Sprintf(f string, a ...any) string           { return realfmt.Sprintf(f, a...) }
func Sprintln(a ...any) string                    { return realfmt.Sprintln(a...) }
func Errorf(f string, a ...any) error             { return realfmt.Errorf(f, a...) }
func Append(b []byte, a ...any) []byte            { return realfmt.Append(b, a...) }
func Appendf(b []byte, f string, a ...any) []byte { return realfmt.Appendf(b, f, a...) }
func Appendln(b []byte, a ...any) []byte          { return realfmt.Appendln(b, a...) }
func Sscan(s string, a ...any) (int, error)       { return realfmt.Sscan(s, a...) }
func Sscanf(s, f string, a ...any) (int, error)   { return realfmt.Sscanf(s, f, a...) }
func Sscanln(s string, a ...any) (int, error)     { return realfmt.Sscanln(s, a...) }
func Fscan(r io.Reader, a ...any) (int, error)    { return realfmt.Fscan(r, a...) }
func Fscanf(r io.Reader, f string, a ...any) (int, error) {
	return realfmt.Fscanf(r, f, a...)
}
func Fscanln(r io.Reader, a ...any) (int, error) { return realfmt.Fscanln(r, a...) }
func Scan(a ...any) (int, error)                 { return realfmt.Scan(a...) }
func Scanf(f string, a ...any) (int, error)      { return realfmt.Scanf(f, a...) }
func Scanln(a ...any) (int, error)               { return realfmt.Scanln(a...) }
func FormatString(s State, verb rune) string     { return realfmt.FormatString(s, verb) }
