// Package snap computes deep structural fingerprints of arbitrary Go values
// (unexported fields, spare slice capacity, maps and cyclic pointer graphs
// included). The explorers use it to decide "nothing the caller can observe
// was changed" without any hook in the code under test.
package snap

import (
	"fmt"
	"hash/fnv"
	"math"
	"reflect"
	"sort"
	"unsafe"
)

type Hasher struct {
	// Opaque maps pointers that must be treated as identities (e.g. the nodes
	// of a document when fingerprinting a node-set that refers to them).
	Opaque  map[unsafe.Pointer]int
	visited map[unsafe.Pointer]int
	Nodes   int // values visited
}

func New() *Hasher { return &Hasher{visited: map[unsafe.Pointer]int{}} }

// Hash returns the fingerprint of v. Pass a pointer to reach unexported state.
func (h *Hasher) Hash(v interface{}) uint64 {
	h.visited = map[unsafe.Pointer]int{}
	return h.value(reflect.ValueOf(v), 0)
}

func mix(a, b uint64) uint64 {
	a ^= b + 0x9e3779b97f4a7c15 + (a << 6) + (a >> 2)
	return a
}

func hstr(s string) uint64 {
	f := fnv.New64a()
	f.Write([]byte(s))
	return f.Sum64()
}

func (h *Hasher) value(v reflect.Value, depth int) uint64 {
	h.Nodes++
	if !v.IsValid() {
		return 1
	}
	if depth > 100000 {
		return 2
	}
	t := v.Type()
	acc := hstr(t.String())
	switch v.Kind() {
	case reflect.Bool:
		if v.Bool() {
			return mix(acc, 3)
		}
		return mix(acc, 4)
	case reflect.Int, reflect.Int8, reflect.Int16, reflect.Int32, reflect.Int64:
		return mix(acc, uint64(v.Int()))
	case reflect.Uint, reflect.Uint8, reflect.Uint16, reflect.Uint32, reflect.Uint64, reflect.Uintptr:
		return mix(acc, v.Uint())
	case reflect.Float32, reflect.Float64:
		return mix(acc, math.Float64bits(v.Float()))
	case reflect.Complex64, reflect.Complex128:
		c := v.Complex()
		return mix(mix(acc, math.Float64bits(real(c))), math.Float64bits(imag(c)))
	case reflect.String:
		return mix(acc, hstr(v.String()))
	case reflect.Pointer:
		if v.IsNil() {
			return mix(acc, 5)
		}
		p := v.UnsafePointer()
		if id, ok := h.Opaque[p]; ok {
			return mix(acc, uint64(1000+id))
		}
		if id, ok := h.visited[p]; ok {
			return mix(acc, uint64(7+id)<<20)
		}
		h.visited[p] = len(h.visited)
		return mix(acc, h.value(v.Elem(), depth+1))
	case reflect.Interface:
		if v.IsNil() {
			return mix(acc, 6)
		}
		return mix(acc, h.value(v.Elem(), depth+1))
	case reflect.Slice:
		if v.IsNil() {
			return mix(acc, 8)
		}
		acc = mix(acc, uint64(v.Len())<<32|uint64(v.Cap()))
		// include the spare capacity: it is memory the owner can observe by re-slicing
		full := v
		if v.Cap() > v.Len() {
			full = v.Slice(0, v.Cap())
		}
		for i := 0; i < full.Len(); i++ {
			acc = mix(acc, h.value(full.Index(i), depth+1))
		}
		return acc
	case reflect.Array:
		for i := 0; i < v.Len(); i++ {
			acc = mix(acc, h.value(v.Index(i), depth+1))
		}
		return acc
	case reflect.Map:
		if v.IsNil() {
			return mix(acc, 9)
		}
		type kv struct{ k, v uint64 }
		var ents []kv
		it := v.MapRange()
		for it.Next() {
			ents = append(ents, kv{h.value(it.Key(), depth+1), h.value(it.Value(), depth+1)})
		}
		sort.Slice(ents, func(i, j int) bool {
			if ents[i].k != ents[j].k {
				return ents[i].k < ents[j].k
			}
			return ents[i].v < ents[j].v
		})
		acc = mix(acc, uint64(len(ents)))
		for _, e := range ents {
			acc = mix(mix(acc, e.k), e.v)
		}
		return acc
	case reflect.Struct:
		for i := 0; i < v.NumField(); i++ {
			f := v.Field(i)
			if !f.CanInterface() && f.CanAddr() {
				f = reflect.NewAt(f.Type(), unsafe.Pointer(f.UnsafeAddr())).Elem()
			} else if !f.CanInterface() {
				// not addressable: copy the struct into addressable memory first
				cp := reflect.New(t).Elem()
				cp.Set(v)
				f = cp.Field(i)
				f = reflect.NewAt(f.Type(), unsafe.Pointer(f.UnsafeAddr())).Elem()
			}
			acc = mix(acc, h.value(f, depth+1))
		}
		return acc
	case reflect.Func, reflect.Chan, reflect.UnsafePointer:
		if v.IsNil() {
			return mix(acc, 10)
		}
		return mix(acc, 11)
	}
	return mix(acc, hstr(fmt.Sprint(v.Kind())))
}
