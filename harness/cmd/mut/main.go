// Command mut is a small syntactic mutation tool used to evaluate the checks
// (DESIGN A.7): it enumerates single-point mutants of a Go source file and
// applies one of them in place.  It is not part of any check.
//
//	mut count <file.go>            number of mutants
//	mut desc  <file.go> <index>    one-line description
//	mut apply <file.go> <index>    rewrite the file with that mutant applied
package main

import (
	"fmt"
	"go/ast"
	"go/parser"
	"go/token"
	"os"
	"strconv"
)

type mutant struct {
	off, end int    // byte range replaced
	repl     string // replacement text
	desc     string
}

var opSwap = map[token.Token]string{
	token.EQL: "!=", token.NEQ: "==", token.LSS: "<=", token.LEQ: "<", token.GTR: ">=", token.GEQ: ">",
	token.LAND: "||", token.LOR: "&&", token.ADD: "-", token.SUB: "+",
}

func mutants(path string) ([]mutant, []byte) {
	src, err := os.ReadFile(path)
	if err != nil {
		panic(err)
	}
	fset := token.NewFileSet()
	f, err := parser.ParseFile(fset, path, src, 0)
	if err != nil {
		panic(err)
	}
	off := func(p token.Pos) int { return fset.Position(p).Offset }
	line := func(p token.Pos) int { return fset.Position(p).Line }
	var out []mutant
	add := func(a, b token.Pos, repl, what string) {
		out = append(out, mutant{off(a), off(b), repl, fmt.Sprintf("%s:%d %s", path, line(a), what)})
	}
	ast.Inspect(f, func(n ast.Node) bool {
		switch x := n.(type) {
		case *ast.BinaryExpr:
			if r, ok := opSwap[x.Op]; ok {
				add(x.OpPos, x.OpPos+token.Pos(len(x.Op.String())), r, fmt.Sprintf("operator %s -> %s", x.Op, r))
			}
			if x.Op == token.LSS || x.Op == token.GTR || x.Op == token.LEQ || x.Op == token.GEQ {
				rev := map[token.Token]string{token.LSS: ">", token.GTR: "<", token.LEQ: ">=", token.GEQ: "<="}[x.Op]
				add(x.OpPos, x.OpPos+token.Pos(len(x.Op.String())), rev, fmt.Sprintf("operator %s -> %s", x.Op, rev))
			}
		case *ast.IfStmt:
			add(x.Cond.Pos(), x.Cond.End(), "!("+string(src[off(x.Cond.Pos()):off(x.Cond.End())])+")", "negate if condition")
		case *ast.BasicLit:
			if x.Kind == token.INT && (x.Value == "0" || x.Value == "1") {
				r := "1"
				if x.Value == "1" {
					r = "0"
				}
				add(x.Pos(), x.End(), r, "literal "+x.Value+" -> "+r)
			}
		case *ast.Ident:
			if x.Name == "true" || x.Name == "false" {
				r := "false"
				if x.Name == "false" {
					r = "true"
				}
				add(x.Pos(), x.End(), r, x.Name+" -> "+r)
			}
		case *ast.BranchStmt:
			if x.Label == nil && (x.Tok == token.BREAK || x.Tok == token.CONTINUE) {
				r := "continue"
				if x.Tok == token.CONTINUE {
					r = "break"
				}
				add(x.Pos(), x.End(), r, x.Tok.String()+" -> "+r)
			}
		case *ast.BlockStmt:
			for _, s := range x.List {
				switch st := s.(type) {
				case *ast.ExprStmt:
					add(st.Pos(), st.End(), "", "delete statement "+short(src[off(st.Pos()):off(st.End())]))
				case *ast.AssignStmt:
					if st.Tok != token.DEFINE {
						add(st.Pos(), st.End(), "", "delete assignment "+short(src[off(st.Pos()):off(st.End())]))
					}
				case *ast.IncDecStmt:
					add(st.Pos(), st.End(), "", "delete "+short(src[off(st.Pos()):off(st.End())]))
				}
			}
		case *ast.CaseClause:
			for _, s := range x.Body {
				switch st := s.(type) {
				case *ast.ExprStmt:
					add(st.Pos(), st.End(), "", "delete statement "+short(src[off(st.Pos()):off(st.End())]))
				case *ast.AssignStmt:
					if st.Tok != token.DEFINE {
						add(st.Pos(), st.End(), "", "delete assignment "+short(src[off(st.Pos()):off(st.End())]))
					}
				}
			}
		case *ast.SliceExpr:
			// a[:n] / a[n:] off by one
			if x.High != nil && !x.Slice3 {
				add(x.High.End(), x.High.End(), "-1", "slice high bound -1")
			}
		case *ast.CallExpr:
			// append(x, ...) -> first argument re-sliced to share / not share: skip; copy(dst, src) deletion is covered
			if id, ok := x.Fun.(*ast.Ident); ok && id.Name == "make" && len(x.Args) == 3 {
				// make([]T, 0, n) -> capacity argument dropped is equivalent; skip
			}
		}
		return true
	})
	return out, src
}

func short(b []byte) string {
	s := string(b)
	for i, c := range s {
		if c == '\n' {
			s = s[:i] + " ..."
			break
		}
	}
	if len(s) > 70 {
		s = s[:70] + "..."
	}
	return s
}

func main() {
	if len(os.Args) < 3 {
		fmt.Fprintln(os.Stderr, "usage: mut count|desc|apply <file.go> [index]")
		os.Exit(2)
	}
	ms, src := mutants(os.Args[2])
	switch os.Args[1] {
	case "count":
		fmt.Println(len(ms))
	case "desc", "apply":
		i, _ := strconv.Atoi(os.Args[3])
		if i < 0 || i >= len(ms) {
			os.Exit(2)
		}
		m := ms[i]
		if os.Args[1] == "desc" {
			fmt.Println(m.desc)
			return
		}
		out := append([]byte{}, src[:m.off]...)
		out = append(out, m.repl...)
		out = append(out, src[m.end:]...)
		if err := os.WriteFile(os.Args[2], out, 0o644); err != nil {
			panic(err)
		}
	}
}
