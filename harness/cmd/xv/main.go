// xv is the driver of all checks: `xv <property> <quick|thorough>`,
// `xv replay <file>`, `xv selftest`, plus internal subprocess entry points.
package main

import (
	"fmt"
	"os"
	"runtime/pprof"
	"strconv"

	"xv/props"
	"xv/run"
)

func main() {
	if len(os.Args) < 2 {
		fmt.Fprintln(os.Stderr, "usage: xv <property> <quick|thorough> | replay <file> | selftest")
		os.Exit(2)
	}
	if os.Args[1] != "replay" {
		if _, isCheck := props.Registry[os.Args[1]]; !isCheck {
			run.StartWatchdog(nil, os.Args[1]) // helper process
		}
	}
	switch os.Args[1] {
	case "c10-stream":
		n, _ := strconv.Atoi(os.Args[3])
		os.Exit(props.C10Stream(os.Args[2], n))
	case "selftest":
		os.Exit(props.SelfTest())
	case "replay":
		os.Exit(props.Replay(os.Args[2]))
	}
	if sub, ok := props.Sub[os.Args[1]]; ok {
		os.Exit(sub(os.Args[2:]))
	}
	id := os.Args[1]
	tier := "quick"
	if len(os.Args) > 2 {
		tier = os.Args[2]
	}
	if t := os.Getenv("VERIF_TIER"); t != "" && len(os.Args) <= 2 {
		tier = t
	}
	p, ok := props.Registry[id]
	if !ok {
		fmt.Fprintln(os.Stderr, "unknown property", id)
		os.Exit(2)
	}
	if rc := props.SelfTest(); rc != 0 {
		fmt.Fprintln(os.Stderr, "harness self-test failed; check is broken, nothing it would report can be believed")
		os.Exit(2)
	}
	if pf := os.Getenv("XV_CPUPROFILE"); pf != "" {
		f, _ := os.Create(pf)
		pprof.StartCPUProfile(f)
	}
	c := run.New(id, tier, p.Level)
	run.StartWatchdog(c, id)
	p.Run(c)
	pprof.StopCPUProfile()
	os.Exit(c.Finish())
}
