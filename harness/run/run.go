// Package run is the shared plumbing of all checks: parallel enumeration,
// evidence accounting, replay artefacts, known-finding attribution.
package run

import (
	"crypto/sha1"
	"encoding/json"
	"fmt"
	"os"
	"path/filepath"
	"runtime"
	"sort"
	"strconv"
	"sync"
	"sync/atomic"
	"time"
)

var VerifDir = func() string {
	if d := os.Getenv("VERIF_DIR"); d != "" {
		return d
	}
	return "/verif"
}()

// OutDir is where evidence and replay files are written (normally VerifDir;
// runs against deliberately broken trees set VERIF_OUT_DIR to keep the
// committed evidence untouched).
var OutDir = func() string {
	if d := os.Getenv("VERIF_OUT_DIR"); d != "" {
		return d
	}
	return VerifDir
}()

type Finding struct {
	Property string `json:"property"`
	ID       string `json:"id"`
	Status   string `json:"status"` // open | fixed
	Commit   string `json:"commit,omitempty"`
	What     string `json:"what"`
	Witness  string `json:"witness,omitempty"`
	Line     string `json:"line,omitempty"` // the "fixed: property=… " rendering for fixed entries
}

type findingsFile struct {
	Findings []Finding `json:"findings"`
}

var (
	findingsOnce sync.Once
	findings     map[string]Finding
)

func loadFindings() {
	findings = map[string]Finding{}
	b, err := os.ReadFile(filepath.Join(VerifDir, "known_findings.json"))
	if err != nil {
		return
	}
	var f findingsFile
	if err := json.Unmarshal(b, &f); err != nil {
		fmt.Fprintln(os.Stderr, "known_findings.json:", err)
		os.Exit(2)
	}
	for _, x := range f.Findings {
		findings[x.ID] = x
	}
}

// Open reports whether the finding id is listed as an open known finding.
func Open(id string) bool {
	findingsOnce.Do(loadFindings)
	f, ok := findings[id]
	return ok && f.Status == "open"
}

// Check accumulates what one run of one property's check covered.
type Check struct {
	ID    string
	Tier  string
	Seed  int64
	Level string
	Rule  string
	start time.Time

	Evaluations atomic.Int64
	States      atomic.Int64
	Transitions atomic.Int64
	Traces      atomic.Int64

	mu         sync.Mutex
	distinct   map[string]struct{}
	samples    []interface{}
	violations []string
	nviol      int
	known      map[string]*knownHit
	extra      map[string]interface{}
	assume     []string
	Exhaustive bool
	deadline   time.Time
	capped     atomic.Bool
}

type knownHit struct {
	count   int
	witness string
}

func New(id, tier, level string) *Check {
	seed, _ := strconv.ParseInt(os.Getenv("VERIF_SEED"), 10, 64)
	c := &Check{ID: id, Tier: tier, Seed: seed, Level: level, start: time.Now(),
		distinct: map[string]struct{}{}, known: map[string]*knownHit{}, extra: map[string]interface{}{},
		Exhaustive: true}
	cap := 25 * time.Minute
	if tier == "quick" {
		cap = 10 * time.Minute
	}
	if s := os.Getenv("VERIF_CAP_S"); s != "" {
		if n, err := strconv.Atoi(s); err == nil {
			cap = time.Duration(n) * time.Second
		}
	}
	c.deadline = c.start.Add(cap)
	return c
}

func (c *Check) Quick() bool { return c.Tier != "thorough" }

// TimeUp reports whether the internal wall-clock cap is exhausted. A check
// that stops because of it records exhaustive:false and still exits 0.
func (c *Check) TimeUp() bool {
	if time.Now().After(c.deadline) {
		if !c.capped.Swap(true) {
			c.mu.Lock()
			c.Exhaustive = false
			c.mu.Unlock()
		}
		return true
	}
	return false
}

func (c *Check) Assume(s string) { c.mu.Lock(); c.assume = append(c.assume, s); c.mu.Unlock() }
func (c *Check) Set(k string, v interface{}) {
	c.mu.Lock()
	c.extra[k] = v
	c.mu.Unlock()
}
func (c *Check) Add(k string, n int64) {
	c.mu.Lock()
	old, _ := c.extra[k].(int64)
	c.extra[k] = old + n
	c.mu.Unlock()
}

// Distinct records a non-trivial outcome key.
func (c *Check) Distinct(key string) {
	c.mu.Lock()
	if len(c.distinct) < 2_000_000 {
		c.distinct[key] = struct{}{}
	}
	c.mu.Unlock()
}

func (c *Check) Sample(v interface{}) {
	c.mu.Lock()
	if len(c.samples) < 8 {
		c.samples = append(c.samples, v)
	}
	c.mu.Unlock()
}

// Known records a hit of a listed open finding.
func (c *Check) Known(id, witness string) {
	c.mu.Lock()
	h := c.known[id]
	if h == nil {
		h = &knownHit{witness: witness}
		c.known[id] = h
	}
	h.count++
	c.mu.Unlock()
}

// Violations returns the number recorded so far.
func (c *Check) Violations() int {
	c.mu.Lock()
	defer c.mu.Unlock()
	return c.nviol
}

// Violation writes a replay artefact and remembers the VIOLATION line. Only
// the first few are written out; the rest are counted.
func (c *Check) Violation(replay interface{}, summary string) {
	c.mu.Lock()
	defer c.mu.Unlock()
	c.nviol++
	if len(c.violations) >= 5 {
		return
	}
	b, _ := json.MarshalIndent(map[string]interface{}{"property": c.ID, "summary": summary, "case": replay}, "", " ")
	h := sha1.Sum(b)
	dir := filepath.Join(OutDir, "replays")
	os.MkdirAll(dir, 0o755)
	p := filepath.Join(dir, fmt.Sprintf("%s-%x.json", c.ID, h[:6]))
	os.WriteFile(p, b, 0o644)
	line := fmt.Sprintf("VIOLATION property=%s replay=%s", c.ID, p)
	c.violations = append(c.violations, line)
	fmt.Fprintf(os.Stderr, "-- %s: %s\n", c.ID, summary)
}

// Finish writes the evidence file, prints KNOWN-FINDING / VIOLATION lines and
// returns the process exit code.
func (c *Check) Finish() int {
	c.mu.Lock()
	defer c.mu.Unlock()
	findingsOnce.Do(loadFindings)
	cov := map[string]interface{}{
		"evaluations":         c.Evaluations.Load(),
		"distinct_nontrivial": len(c.distinct),
		"rule":                c.Rule,
		"samples":             c.samples,
		"exhaustive":          c.Exhaustive,
	}
	if c.Level == "model_checking" {
		cov["states"] = c.States.Load()
		cov["transitions"] = c.Transitions.Load()
		cov["traces_validated_against_impl"] = c.Traces.Load()
	}
	for k, v := range c.extra {
		cov[k] = v
	}
	if pk := peakHeap.Load(); pk > 0 {
		cov["peak_heap_mb_sampled"] = pk >> 20
		cov["heap_limit_mb"] = MemLimitBytes() >> 20
	}
	kf := map[string]int{}
	ids := make([]string, 0, len(c.known))
	for id := range c.known {
		ids = append(ids, id)
	}
	sort.Strings(ids)
	for _, id := range ids {
		kf[id] = c.known[id].count
	}
	cov["known_finding_hits"] = kf
	ev := map[string]interface{}{
		"property_id": c.ID,
		"tier":        c.Tier,
		"seed":        c.Seed,
		"level":       c.Level,
		"coverage":    cov,
		"assumptions": c.assume,
		"wall_s":      time.Since(c.start).Seconds(),
		"violations":  c.nviol,
	}
	if c.assume == nil {
		ev["assumptions"] = []string{}
	}
	b, _ := json.MarshalIndent(ev, "", " ")
	os.MkdirAll(filepath.Join(OutDir, "evidence"), 0o755)
	if err := os.WriteFile(filepath.Join(OutDir, "evidence", c.ID+".json"), b, 0o644); err != nil {
		fmt.Fprintln(os.Stderr, "cannot write evidence:", err)
		return 2
	}
	for _, id := range ids {
		f := findings[id]
		fmt.Printf("KNOWN-FINDING: property=%s %s [%s; %d cases, first: %s]\n", c.ID, f.What, id, c.known[id].count, c.known[id].witness)
	}
	fmt.Printf("%s %s: evaluations=%d distinct_nontrivial=%d states=%d transitions=%d exhaustive=%v violations=%d wall=%.1fs\n",
		c.ID, c.Tier, c.Evaluations.Load(), len(c.distinct), c.States.Load(), c.Transitions.Load(), c.Exhaustive, c.nviol, time.Since(c.start).Seconds())
	if c.nviol > 0 {
		for _, l := range c.violations {
			fmt.Println(l)
		}
		return 1
	}
	return 0
}

// Parallel runs f(i) for i in [0,n) on all cores. f must be safe for
// concurrent use. The order in which indices are taken does not affect the
// set of cases explored.
func Parallel(n int, f func(i int)) {
	workers := runtime.GOMAXPROCS(0)
	if workers > n {
		workers = n
	}
	if workers < 1 {
		workers = 1
	}
	var next atomic.Int64
	var wg sync.WaitGroup
	for w := 0; w < workers; w++ {
		wg.Add(1)
		go func() {
			defer wg.Done()
			for {
				i := int(next.Add(1)) - 1
				if i >= n {
					return
				}
				f(i)
			}
		}()
	}
	wg.Wait()
}

// ParallelW is Parallel with a worker index (0..workers-1) for worker-local
// state such as compiled-expression caches.
func ParallelW(n int, f func(worker, i int)) int {
	workers := runtime.GOMAXPROCS(0)
	if workers > n {
		workers = n
	}
	if workers < 1 {
		workers = 1
	}
	var next atomic.Int64
	var wg sync.WaitGroup
	for w := 0; w < workers; w++ {
		wg.Add(1)
		go func(w int) {
			defer wg.Done()
			for {
				i := int(next.Add(1)) - 1
				if i >= n {
					return
				}
				f(w, i)
			}
		}(w)
	}
	wg.Wait()
	return workers
}

// Workers is the number of workers ParallelW uses at most.
func Workers() int { return runtime.GOMAXPROCS(0) }

// Get returns an extra evidence value (nil if unset).
func (c *Check) Get(k string) interface{} {
	c.mu.Lock()
	defer c.mu.Unlock()
	return c.extra[k]
}

// Exported is the state of a Check that a helper process hands back to its
// parent (Export in the child, Merge in the parent).
type Exported struct {
	Evaluations, States, Transitions, Traces int64
	Distinct                                 []string
	Samples                                  []interface{}
	Violations                               []string
	NViol                                    int
	Extra                                    map[string]interface{}
	AddKeys                                  []string // keys of Extra that are counters (merged by addition)
	NotExhaustive                            bool
	Assume                                   []string
}

// Export snapshots the check (counters added with Add are listed in AddKeys).
func (c *Check) Export() Exported {
	c.mu.Lock()
	defer c.mu.Unlock()
	e := Exported{Evaluations: c.Evaluations.Load(), States: c.States.Load(), Transitions: c.Transitions.Load(), Traces: c.Traces.Load(),
		Samples: c.samples, Violations: c.violations, NViol: c.nviol, Extra: map[string]interface{}{}, NotExhaustive: !c.Exhaustive, Assume: c.assume}
	for k := range c.distinct {
		e.Distinct = append(e.Distinct, k)
	}
	for k, v := range c.extra {
		e.Extra[k] = v
		if _, isCounter := v.(int64); isCounter {
			e.AddKeys = append(e.AddKeys, k)
		}
	}
	return e
}

// Merge folds what a helper process exported into this check.
func (c *Check) Merge(e Exported) {
	c.Evaluations.Add(e.Evaluations)
	c.States.Add(e.States)
	c.Transitions.Add(e.Transitions)
	c.Traces.Add(e.Traces)
	c.mu.Lock()
	defer c.mu.Unlock()
	for _, k := range e.Distinct {
		c.distinct[k] = struct{}{}
	}
	for _, s := range e.Samples {
		if len(c.samples) < 8 {
			c.samples = append(c.samples, s)
		}
	}
	c.nviol += e.NViol
	for _, v := range e.Violations {
		if len(c.violations) < 5 {
			c.violations = append(c.violations, v)
		}
	}
	counter := map[string]bool{}
	for _, k := range e.AddKeys {
		counter[k] = true
	}
	for k, v := range e.Extra {
		if counter[k] {
			old, _ := c.extra[k].(int64)
			switch n := v.(type) {
			case float64: // through JSON
				c.extra[k] = old + int64(n)
			case int64:
				c.extra[k] = old + n
			}
			continue
		}
		c.extra[k] = v
	}
	if e.NotExhaustive {
		c.Exhaustive = false
	}
	c.assume = append(c.assume, e.Assume...)
}
