//go:build !race

package run

const raceEnabled = false
