package run

import (
	"fmt"
	"os"
	"path/filepath"
	"runtime"
	"runtime/metrics"
	"sort"
	"strconv"
	"strings"
	"sync"
	"sync/atomic"
	"time"
)

// Memory watchdog. A change to the library can make a reader or an evaluation
// build without end (a parser that never reports its end event, a loop that
// keeps appending): the check process would grow until the kernel kills it,
// taking the verdict with it. The watchdog turns that into a verdict: when the
// live heap passes the limit while a goroutine is inside library code, the
// run is over - the stacks and the inputs in flight are written to a log and
// reported as a violation; when no goroutine is in library code it is the
// harness that is broken (exit 2).

type inflightRec struct {
	start time.Time
	kind  string
	desc  string
}

var inflight sync.Map // *inflightRec -> struct{}

var peakHeap atomic.Uint64 // highest sampled heap size

// Track registers a library call on an input (desc: short, printable) for the
// duration of the call; the returned function ends the registration. Only
// used around calls whose cost is far above the registration's (document
// reads), never per Exec.
func Track(kind, input string) func() {
	r := &inflightRec{start: time.Now(), kind: kind, desc: input}
	inflight.Store(r, struct{}{})
	return func() { inflight.Delete(r) }
}

// MemLimitBytes is the live-heap limit (XV_MEM_LIMIT_GB, default 16).
func MemLimitBytes() uint64 {
	gb := 16.0
	if s := os.Getenv("XV_MEM_LIMIT_GB"); s != "" {
		if f, err := strconv.ParseFloat(s, 64); err == nil && f > 0 {
			gb = f
		}
	}
	return uint64(gb * (1 << 30))
}

// StartWatchdog starts the watchdog for check c (nil in helper processes: the
// process then exits with status 3 and a MEMORY line, which its parent reports).
func StartWatchdog(c *Check, id string) {
	limit := MemLimitBytes()
	sample := []metrics.Sample{{Name: "/memory/classes/heap/objects:bytes"}}
	go func() {
		for {
			time.Sleep(200 * time.Millisecond)
			metrics.Read(sample)
			if sample[0].Value.Kind() != metrics.KindUint64 {
				continue
			}
			if v := sample[0].Value.Uint64(); v > peakHeap.Load() {
				peakHeap.Store(v)
			}
			if sample[0].Value.Uint64() < limit {
				continue
			}
			heap := sample[0].Value.Uint64()
			buf := make([]byte, 8<<20)
			n := runtime.Stack(buf, true)
			stacks := string(buf[:n])
			var recs []*inflightRec
			inflight.Range(func(k, _ interface{}) bool { recs = append(recs, k.(*inflightRec)); return true })
			sort.Slice(recs, func(i, j int) bool { return recs[i].start.Before(recs[j].start) })
			var sb strings.Builder
			fmt.Fprintf(&sb, "live heap %d MB exceeds the limit of %d MB\n", heap>>20, limit>>20)
			for i, r := range recs {
				if i == 8 {
					break
				}
				d := r.desc
				if len(d) > 400 {
					d = d[:400] + "..."
				}
				fmt.Fprintf(&sb, "in flight for %.1fs: %s %q\n", time.Since(r.start).Seconds(), r.kind, d)
			}
			sb.WriteString("\n")
			sb.WriteString(stacks)
			inLib := strings.Contains(stacks, "github.com/ChrisTrenkamp/xsel/") || strings.Contains(stacks, "github.com/ChrisTrenkamp/xsel.")
			if c == nil {
				fmt.Printf("MEMORY helper process exceeded the heap limit (library code on a stack: %v)\n%s", inLib, firstLines(sb.String(), 12))
				os.Exit(3)
			}
			if !inLib {
				fmt.Fprintf(os.Stderr, "HARNESS: %s: the check exceeded its heap limit with no goroutine inside library code; the check is broken\n%s", id, firstLines(sb.String(), 40))
				os.Exit(2)
			}
			dir := filepath.Join(OutDir, "replays")
			os.MkdirAll(dir, 0o755)
			p := filepath.Join(dir, fmt.Sprintf("%s-memory-%d.log", id, os.Getpid()))
			os.WriteFile(p, []byte(sb.String()), 0o644)
			oldest := "(no registered input; see the stacks)"
			if len(recs) > 0 {
				oldest = recs[0].desc
				if len(oldest) > 300 {
					oldest = oldest[:300] + "..."
				}
				oldest = fmt.Sprintf("%s %q", recs[0].kind, oldest)
			}
			c.mu.Lock()
			c.nviol++
			c.violations = append([]string{fmt.Sprintf("VIOLATION property=%s replay=%s", id, p)}, c.violations...)
			c.Exhaustive = false
			c.mu.Unlock()
			fmt.Fprintf(os.Stderr, "-- %s: the library keeps allocating without returning: the live heap passed %d MB while library calls were in flight; longest-running registered input: %s\n", id, limit>>20, oldest)
			os.Exit(c.Finish())
		}
	}()
}

func firstLines(s string, n int) string {
	l := strings.SplitN(s, "\n", n+1)
	if len(l) > n {
		l = l[:n]
	}
	return strings.Join(l, "\n") + "\n"
}
