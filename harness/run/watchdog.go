package run

import (
	"fmt"
	"os"
	"path/filepath"
	"runtime"
	"runtime/metrics"
	"sort"
	"strconv"
	"strings"
	"sync/atomic"
	"time"
)

// Memory watchdog. A change to the library can make a reader or an evaluation
// build without end (a parser that never reports its end event, a loop that
// keeps appending): the check process would grow until the kernel kills it,
// taking the verdict with it. The watchdog turns that into a verdict: when the
// live heap passes the limit while a goroutine is inside library code, the
// run is over - the stacks and the inputs in flight are written to a log and
// reported as a violation - provided one library call has been in flight for
// at least 5 s (a runaway reader or evaluation is a single call that does not
// return; when all calls in flight are young the memory is the harness's own
// state space, which is only stopped at three times the limit, exit 2).

// Call slots: every library call the harness makes through its wrappers
// (Exec, BuildExpr, Unmarshal, the readers, CreateInMemory) occupies a slot
// for its duration. The watchdog uses them to name the inputs in flight and to
// notice a call that never returns.
type callSlot struct {
	state atomic.Uint64 // 0 free, 1 being filled, >=2 active (a generation number)
	kind  string
	arg   interface{}
	_     [24]byte
}

const nSlots = 1024

var (
	slots      [nSlots]callSlot
	slotHint   atomic.Uint32
	slotGen    atomic.Uint64
	peakHeap   atomic.Uint64 // highest sampled heap size
	callsTotal atomic.Uint64
)

// Enter occupies a slot for a library call (kind: which entry point; arg: its
// input - a string, or something with GetString()); Leave frees it. Cost: a
// few atomic operations, no allocation for pointer or string arguments kept
// by the caller.
func Enter(kind string, arg interface{}) int {
	if raceEnabled {
		return -1
	}
	i := int(slotHint.Add(1))
	for k := 0; k < nSlots; k++ {
		s := &slots[(i+k)%nSlots]
		if s.state.Load() == 0 && s.state.CompareAndSwap(0, 1) {
			s.kind, s.arg = kind, arg
			s.state.Store(slotGen.Add(1) + 1)
			return (i + k) % nSlots
		}
	}
	return -1
}

func Leave(i int) {
	if i >= 0 {
		slots[i].state.Store(0)
	}
}

// Track is Enter/Leave for use with defer.
func Track(kind, input string) func() {
	i := Enter(kind, input)
	return func() { Leave(i) }
}

type inflightRec struct {
	ticks int
	kind  string
	desc  string
}

func describeArg(a interface{}) string {
	defer func() { recover() }()
	switch v := a.(type) {
	case string:
		return v
	case interface{ GetString() string }:
		return v.GetString()
	case fmt.Stringer:
		return v.String()
	}
	return fmt.Sprintf("%v", a)
}

// CallLimitTicks: a call that stays in its slot for this many watchdog
// seconds (XV_CALL_LIMIT_S, default 240) does not return. Ticks are counted by
// the watchdog itself, so time during which the whole process is stopped does
// not count.
func CallLimitTicks() int {
	n := 240
	if s := os.Getenv("XV_CALL_LIMIT_S"); s != "" {
		if v, err := strconv.Atoi(s); err == nil && v > 0 {
			n = v
		}
	}
	return n
}

// MemLimitBytes is the live-heap limit (XV_MEM_LIMIT_GB, default 16).
func MemLimitBytes() uint64 {
	gb := 16.0
	if s := os.Getenv("XV_MEM_LIMIT_GB"); s != "" {
		if f, err := strconv.ParseFloat(s, 64); err == nil && f > 0 {
			gb = f
		}
	}
	return uint64(gb * (1 << 30))
}

// snapshot lists the calls in flight, longest-running first.
func snapshot(seen *[nSlots]struct {
	gen   uint64
	ticks int
}) []inflightRec {
	var recs []inflightRec
	for i := range slots {
		st := slots[i].state.Load()
		if st < 2 {
			continue
		}
		kind, arg := slots[i].kind, slots[i].arg
		if slots[i].state.Load() != st {
			continue // re-used while being read
		}
		recs = append(recs, inflightRec{ticks: seen[i].ticks, kind: kind, desc: describeArg(arg)})
	}
	sort.Slice(recs, func(i, j int) bool { return recs[i].ticks > recs[j].ticks })
	return recs
}

// StartWatchdog starts the watchdog for check c (nil in helper processes: the
// process then exits with status 3 and a MEMORY / HANG line, which its parent
// reports).
func StartWatchdog(c *Check, id string) {
	limit := MemLimitBytes()
	hardLimit := 3 * limit // the harness's own data (no long-running call in flight): a broken check, not a verdict
	callLimit := CallLimitTicks()
	sample := []metrics.Sample{{Name: "/memory/classes/heap/objects:bytes"}}
	var seen [nSlots]struct {
		gen   uint64
		ticks int
	}
	var heapAtStart [nSlots]uint64 // heap size when the call in the slot was first seen
	var lastHeap uint64
	report := func(what, logName, headline string) {
		buf := make([]byte, 8<<20)
		n := runtime.Stack(buf, true)
		stacks := string(buf[:n])
		recs := snapshot(&seen)
		var sb strings.Builder
		sb.WriteString(headline + "\n")
		for i, r := range recs {
			if i == 8 {
				break
			}
			d := r.desc
			if len(d) > 400 {
				d = d[:400] + "..."
			}
			fmt.Fprintf(&sb, "in flight for %d s: %s %q\n", r.ticks, r.kind, d)
		}
		sb.WriteString("\n")
		sb.WriteString(stacks)
		inLib := strings.Contains(stacks, "github.com/ChrisTrenkamp/xsel/") || strings.Contains(stacks, "github.com/ChrisTrenkamp/xsel.")
		if c == nil {
			fmt.Printf("%s helper process: %s (library code on a stack: %v)\n%s", what, headline, inLib, firstLines(sb.String(), 12))
			os.Exit(3)
		}
		if !inLib {
			fmt.Fprintf(os.Stderr, "HARNESS: %s: %s with no goroutine inside library code; the check is broken\n%s", id, headline, firstLines(sb.String(), 40))
			os.Exit(2)
		}
		dir := filepath.Join(OutDir, "replays")
		os.MkdirAll(dir, 0o755)
		p := filepath.Join(dir, fmt.Sprintf("%s-%s-%d.log", id, logName, os.Getpid()))
		os.WriteFile(p, []byte(sb.String()), 0o644)
		oldest := "(no registered input; see the stacks)"
		if len(recs) > 0 {
			d := recs[0].desc
			if len(d) > 300 {
				d = d[:300] + "..."
			}
			oldest = fmt.Sprintf("%s %q", recs[0].kind, d)
		}
		c.mu.Lock()
		c.nviol++
		c.violations = append([]string{fmt.Sprintf("VIOLATION property=%s replay=%s", id, p)}, c.violations...)
		c.Exhaustive = false
		c.mu.Unlock()
		fmt.Fprintf(os.Stderr, "-- %s: %s; longest-running library call: %s\n", id, headline, oldest)
		os.Exit(c.Finish())
	}
	go func() {
		sub := 0
		for {
			time.Sleep(200 * time.Millisecond)
			metrics.Read(sample)
			if sample[0].Value.Kind() == metrics.KindUint64 {
				heap := sample[0].Value.Uint64()
				lastHeap = heap
				if heap > peakHeap.Load() {
					peakHeap.Store(heap)
				}
				if heap >= limit {
					// attribution: a reader or evaluation that builds without end is ONE call
					// that has been in flight for a while; when every call in flight is
					// young, the memory is the harness's own (a large state space)
					// ... and the heap must have grown by at least half the limit WHILE that
					// call was in flight (under memory pressure of the harness's own making
					// every call gets slow, but none of them is what grows)
					oldest := 0
					for i := range slots {
						if slots[i].state.Load() >= 2 && seen[i].ticks > oldest && heap > heapAtStart[i] && heap-heapAtStart[i] >= limit/2 {
							oldest = seen[i].ticks
						}
					}
					if oldest >= 5 {
						report("MEMORY", "memory", fmt.Sprintf("the library keeps allocating without returning: the live heap (%d MB) passed the limit of %d MB while a library call had been in flight for %d s", heap>>20, limit>>20, oldest))
					}
					if heap >= hardLimit {
						fmt.Fprintf(os.Stderr, "HARNESS: %s: the check's own data passed %d MB with no long-running library call in flight; the check is broken (not a result)\n", id, hardLimit>>20)
						os.Exit(2)
					}
				}
			}
			if sub++; sub%5 != 0 {
				continue
			}
			// once per second: a slot that stays occupied by the same call
			for i := range slots {
				st := slots[i].state.Load()
				switch {
				case st < 2:
					seen[i].gen, seen[i].ticks = 0, 0
				case st == seen[i].gen:
					seen[i].ticks++
					if seen[i].ticks >= callLimit {
						report("HANG", "hang", fmt.Sprintf("a library call has not returned for %d s (measured by the watchdog's own ticks)", seen[i].ticks))
					}
				default:
					seen[i].gen, seen[i].ticks = st, 0
					heapAtStart[i] = lastHeap
				}
			}
		}
	}()
}

func firstLines(s string, n int) string {
	l := strings.SplitN(s, "\n", n+1)
	if len(l) > n {
		l = l[:n]
	}
	return strings.Join(l, "\n") + "\n"
}
