//go:build race

package run

// In race builds the call tracking is off: the watchdog reads slots that the
// workers write (a sequence-lock pattern the race detector would report).
const raceEnabled = true
