package refxp

import (
	"fmt"
	"math"
	"sort"

	"xv/adoc"
)

type UserFunc func(ctx Ctx, args []Value) (Value, error)

// Env is the binding environment of a query.
type Env struct {
	NS    map[string]string
	Vars  map[Name]Value
	Funcs map[Name]UserFunc
	Doc   *adoc.Doc
	Q     Quirks
}

// Ctx is the evaluation context. Nodes is a singleton in every context XPath
// 1.0 defines; only inside the library's function-as-step extension does a
// function see a whole node-set as its context.
type Ctx struct {
	Nodes NodeSet
	Pos   int
	Size  int
	Env   *Env
}

type EvalError struct{ Msg string }

func (e *EvalError) Error() string { return e.Msg }
func errf(f string, a ...interface{}) error {
	return &EvalError{Msg: fmt.Sprintf(f, a...)}
}

// Eval evaluates e with node n as context node, position 1, size 1.
func Eval(e Expr, n *adoc.Node, env *Env) (Value, error) {
	return eval(e, Ctx{Nodes: NodeSet{n}, Pos: 1, Size: 1, Env: env})
}

func EvalCtx(e Expr, c Ctx) (Value, error) { return eval(e, c) }

// SortUnique puts a node list into document order without duplicates.
func SortUnique(ns NodeSet) NodeSet { return sortUnique(append(NodeSet{}, ns...)) }

func sortUnique(ns NodeSet) NodeSet {
	sort.Slice(ns, func(i, j int) bool { return ns[i].ID < ns[j].ID })
	out := ns[:0]
	for i, n := range ns {
		if i == 0 || n != ns[i-1] {
			out = append(out, n)
		}
	}
	return out
}

func rootOf(n *adoc.Node) *adoc.Node {
	for n.Parent != nil {
		n = n.Parent
	}
	return n
}

func isAncestorOf(a, n *adoc.Node) bool {
	for p := n.Parent; p != nil; p = p.Parent {
		if p == a {
			return true
		}
	}
	return false
}

func descendants(n *adoc.Node, out []*adoc.Node) []*adoc.Node {
	for _, c := range n.Children {
		out = append(out, c)
		out = descendants(c, out)
	}
	return out
}

// Axis returns the nodes on the axis from n, in axis (proximity) order.
func Axis(axis string, n *adoc.Node, doc *adoc.Doc) []*adoc.Node {
	var out []*adoc.Node
	switch axis {
	case "self":
		return []*adoc.Node{n}
	case "child":
		return append(out, n.Children...)
	case "descendant":
		return descendants(n, nil)
	case "descendant-or-self":
		return descendants(n, []*adoc.Node{n})
	case "parent":
		if n.Parent != nil {
			return []*adoc.Node{n.Parent}
		}
		return nil
	case "ancestor", "ancestor-or-self":
		if axis == "ancestor-or-self" {
			out = append(out, n)
		}
		for p := n.Parent; p != nil; p = p.Parent {
			out = append(out, p)
		}
		return out
	case "attribute":
		if n.Kind == adoc.Elem {
			return append(out, n.Attrs...)
		}
		return nil
	case "namespace":
		if n.Kind == adoc.Elem {
			return append(out, n.NS...)
		}
		return nil
	case "following-sibling", "preceding-sibling":
		if !n.IsTreeNode() || n.Parent == nil {
			return nil
		}
		sib := n.Parent.Children
		idx := -1
		for i, s := range sib {
			if s == n {
				idx = i
			}
		}
		if axis == "following-sibling" {
			return append(out, sib[idx+1:]...)
		}
		for i := idx - 1; i >= 0; i-- {
			out = append(out, sib[i])
		}
		return out
	case "following":
		root := rootOf(n)
		all := docNodes(root, doc)
		for _, x := range all {
			if x.ID > n.ID && x.IsTreeNode() && !isAncestorOf(n, x) {
				out = append(out, x)
			}
		}
		return out
	case "preceding":
		root := rootOf(n)
		all := docNodes(root, doc)
		for i := len(all) - 1; i >= 0; i-- {
			x := all[i]
			if x.ID < n.ID && x.IsTreeNode() && !isAncestorOf(x, n) {
				out = append(out, x)
			}
		}
		return out
	}
	return nil
}

func docNodes(root *adoc.Node, doc *adoc.Doc) []*adoc.Node {
	if doc != nil && doc.Root == root {
		return doc.Nodes
	}
	var out []*adoc.Node
	var walk func(n *adoc.Node)
	walk = func(n *adoc.Node) {
		out = append(out, n)
		out = append(out, n.NS...)
		out = append(out, n.Attrs...)
		for _, c := range n.Children {
			walk(c)
		}
	}
	walk(root)
	sort.Slice(out, func(i, j int) bool { return out[i].ID < out[j].ID })
	return out
}

func matchTest(n *adoc.Node, t Test, axis string, env *Env) (bool, error) {
	switch t.Kind {
	case TNode:
		return true, nil
	case TText:
		return n.Kind == adoc.Text, nil
	case TComment:
		return n.Kind == adoc.Comment, nil
	case TPI:
		return n.Kind == adoc.PI && (!t.HasTarget || n.Local == t.Target), nil
	}
	principal := adoc.Elem
	switch axis {
	case "attribute":
		principal = adoc.Attr
	case "namespace":
		principal = adoc.NS
	}
	if n.Kind != principal {
		return false, nil
	}
	if principal == adoc.NS {
		// Name tests on the namespace axis follow the library's own URI based
		// rule and are outside every property; '*' is standard.
		if t.Prefix == "" && t.Local == "*" {
			return true, nil
		}
		if t.Prefix == "" {
			return n.Value == env.NS[t.Local], nil
		}
		return false, nil
	}
	switch {
	case t.Prefix == "" && t.Local == "*":
		return true, nil
	case t.Prefix == "*":
		return n.Local == t.Local, nil
	case t.Prefix == "":
		return n.Space == "" && n.Local == t.Local, nil
	}
	uri, ok := env.NS[t.Prefix]
	if !ok {
		return false, errf("unbound prefix %q", t.Prefix)
	}
	if t.Local == "*" {
		return n.Space == uri, nil
	}
	return n.Space == uri && n.Local == t.Local, nil
}

// applyPreds filters list (already in the order that defines proximity
// position) through the predicates.
func applyPreds(list []*adoc.Node, preds []Expr, c Ctx) ([]*adoc.Node, error) {
	for _, p := range preds {
		var next []*adoc.Node
		for i, n := range list {
			v, err := eval(p, Ctx{Nodes: NodeSet{n}, Pos: i + 1, Size: len(list), Env: c.Env})
			if err != nil {
				return nil, err
			}
			keep := false
			if f, ok := v.(float64); ok {
				keep = f == float64(i+1)
			} else {
				keep = ToBool(v)
			}
			if keep {
				next = append(next, n)
			}
		}
		list = next
	}
	return list, nil
}

func evalStep(s *Step, cur NodeSet, c Ctx) (NodeSet, error) {
	var out NodeSet
	// a prefix in the name test is resolved when the step is evaluated, also
	// if no candidate node reaches the test
	if s.Test.Kind == TName && s.Test.Prefix != "" && s.Test.Prefix != "*" && s.Axis != "namespace" {
		if _, ok := c.Env.NS[s.Test.Prefix]; !ok {
			return nil, errf("unbound prefix %q", s.Test.Prefix)
		}
	}
	for _, n := range cur {
		cand := Axis(s.Axis, n, c.Env.Doc)
		var list []*adoc.Node
		for _, x := range cand {
			ok, err := matchTest(x, s.Test, s.Axis, c.Env)
			if err != nil {
				return nil, err
			}
			if ok {
				list = append(list, x)
			}
		}
		list, err := applyPreds(list, s.Preds, c)
		if err != nil {
			return nil, err
		}
		out = append(out, list...)
	}
	return sortUnique(out), nil
}

func dosNode(cur NodeSet, doc *adoc.Doc) NodeSet {
	var out NodeSet
	for _, n := range cur {
		out = append(out, Axis("descendant-or-self", n, doc)...)
	}
	return sortUnique(out)
}

func evalPath(p *Path, c Ctx) (Value, error) {
	var cur NodeSet
	switch {
	case p.Start != nil:
		v, err := eval(p.Start, c)
		if err != nil {
			return nil, err
		}
		ns, ok := v.(NodeSet)
		if !ok {
			return nil, errf("filter expression / path step applied to a %s", TypeName(v))
		}
		list, err := applyPreds(append([]*adoc.Node(nil), ns...), p.StartPreds, c)
		if err != nil {
			return nil, err
		}
		cur = NodeSet(list)
	case p.Abs:
		if len(c.Nodes) > 0 {
			cur = NodeSet{rootOf(c.Nodes[0])}
		} else {
			cur = NodeSet{c.Env.Doc.Root}
		}
	default:
		cur = c.Nodes
	}
	for i, s := range p.Steps {
		if s.DSlash {
			cur = dosNode(cur, c.Env.Doc)
		}
		if s.Form == FormCall {
			v, err := evalCall(s.Call, Ctx{Nodes: cur, Pos: c.Pos, Size: c.Size, Env: c.Env})
			if err != nil {
				return nil, err
			}
			if i == len(p.Steps)-1 {
				return v, nil
			}
			ns, ok := v.(NodeSet)
			if !ok {
				return nil, errf("path step applied to a %s", TypeName(v))
			}
			cur = ns
			continue
		}
		var err error
		cur, err = evalStep(s, cur, c)
		if err != nil {
			return nil, err
		}
	}
	return cur, nil
}

func eval(e Expr, c Ctx) (Value, error) {
	switch v := e.(type) {
	case Num:
		return StringToNumber(v.Text), nil
	case Lit:
		return v.V, nil
	case *Paren:
		return eval(v.X, c)
	case VarRef:
		space := ""
		if v.Prefix != "" {
			uri, ok := c.Env.NS[v.Prefix]
			if !ok {
				return nil, errf("unbound prefix %q", v.Prefix)
			}
			space = uri
		}
		val, ok := c.Env.Vars[Name{space, v.Local}]
		if !ok {
			return nil, errf("unbound variable %s", v.Local)
		}
		return val, nil
	case *Call:
		return evalCall(v, c)
	case *Neg:
		x, err := eval(v.X, c)
		if err != nil {
			return nil, err
		}
		return -ToNumber(x), nil
	case *Path:
		return evalPath(v, c)
	case *Bin:
		l, err := eval(v.L, c)
		if err != nil {
			return nil, err
		}
		// XPath allows (does not require) short-circuiting; both operands are
		// evaluated here so that an error on the right is always reported.
		r, err := eval(v.R, c)
		if err != nil {
			return nil, err
		}
		switch v.Op {
		case "or":
			return ToBool(l) || ToBool(r), nil
		case "and":
			return ToBool(l) && ToBool(r), nil
		case "=", "!=", "<", "<=", ">", ">=":
			return Compare(v.Op, l, r), nil
		case "+":
			return ToNumber(l) + ToNumber(r), nil
		case "-":
			return ToNumber(l) - ToNumber(r), nil
		case "*":
			return ToNumber(l) * ToNumber(r), nil
		case "div":
			return ToNumber(l) / ToNumber(r), nil
		case "mod":
			return math.Mod(ToNumber(l), ToNumber(r)), nil
		case "|":
			ln, lok := l.(NodeSet)
			rn, rok := r.(NodeSet)
			if !lok || !rok {
				return nil, errf("union of non-node-sets")
			}
			u := append(append(NodeSet{}, ln...), rn...)
			return sortUnique(u), nil
		}
	}
	return nil, errf("cannot evaluate %T", e)
}

func cmpNum(op string, a, b float64) bool {
	switch op {
	case "=":
		return a == b
	case "!=":
		return a != b
	case "<":
		return a < b
	case "<=":
		return a <= b
	case ">":
		return a > b
	case ">=":
		return a >= b
	}
	return false
}

func cmpAtom(op string, l, r Value) bool {
	// neither operand is a node-set
	if op == "=" || op == "!=" {
		_, lb := l.(bool)
		_, rb := r.(bool)
		if lb || rb {
			eq := ToBool(l) == ToBool(r)
			return eq == (op == "=")
		}
		_, ln := l.(float64)
		_, rn := r.(float64)
		if ln || rn {
			return cmpNum(op, ToNumber(l), ToNumber(r))
		}
		eq := ToString(l) == ToString(r)
		return eq == (op == "=")
	}
	return cmpNum(op, ToNumber(l), ToNumber(r))
}

func flip(op string) string {
	switch op {
	case "<":
		return ">"
	case "<=":
		return ">="
	case ">":
		return "<"
	case ">=":
		return "<="
	}
	return op
}

// Compare implements XPath 1.0 §3.4.
func Compare(op string, l, r Value) bool {
	ln, lok := l.(NodeSet)
	rn, rok := r.(NodeSet)
	switch {
	case lok && rok:
		for _, a := range ln {
			for _, b := range rn {
				if cmpAtom(op, a.StringValue(), b.StringValue()) {
					return true
				}
			}
		}
		return false
	case lok:
		return cmpSetAtom(op, ln, r)
	case rok:
		return cmpSetAtom(flip(op), rn, l)
	}
	return cmpAtom(op, l, r)
}

// cmpSetAtom: node-set on the left of op, non-node-set on the right.
func cmpSetAtom(op string, ns NodeSet, v Value) bool {
	switch x := v.(type) {
	case bool:
		return cmpAtom(op, len(ns) > 0, x)
	case float64:
		for _, n := range ns {
			if cmpNum(op, StringToNumber(n.StringValue()), x) {
				return true
			}
		}
	case string:
		for _, n := range ns {
			if cmpAtom(op, n.StringValue(), x) {
				return true
			}
		}
	}
	return false
}
