// Package refxp is the reference model: an XPath 1.0 parser, renderer and
// evaluator written from the Recommendation over abstract documents (adoc).
// It shares no code with the library under test.
package refxp

type Expr interface{ isExpr() }

type Num struct{ Text string } // numeral as written: Digits ('.' Digits?)? | '.' Digits
type Lit struct {
	V     string
	Quote byte // '\'' or '"'; 0 = renderer chooses
}
type VarRef struct{ Prefix, Local string }
type Call struct {
	Prefix, Local string
	Args          []Expr
}
type Bin struct {
	Op   string // or and = != < <= > >= + - * div mod |
	L, R Expr
}
type Neg struct{ X Expr }
type Paren struct{ X Expr }

// Path covers LocationPath and FilterExpr (with optional path tail).
type Path struct {
	Abs        bool   // leading '/' or '//' (then Steps[0].DSlash)
	Start      Expr   // primary expression (Paren, Lit, Num, VarRef, Call) or nil
	StartPreds []Expr // predicates of the filter expression
	Steps      []*Step
}

const (
	FormFull   = iota // axis::test
	FormChild         // test            (child axis implied)
	FormAt            // @test           (attribute axis)
	FormDot           // .               (self::node())
	FormDotDot        // ..              (parent::node())
	FormCall          // f(args)         (library extension: function call used as a step)
)

type Step struct {
	DSlash bool // the separator in front of this step is '//'
	Form   int
	Axis   string
	Test   Test
	Preds  []Expr
	Call   *Call
}

const (
	TName = iota // name test; Prefix/Local, either may be "*"
	TNode
	TText
	TComment
	TPI
)

type Test struct {
	Kind      int
	Prefix    string // "" = none, "*" = any namespace (extension)
	Local     string // "*" = any
	HasTarget bool
	Target    string // processing-instruction('target')
}

func (Num) isExpr()    {}
func (Lit) isExpr()    {}
func (VarRef) isExpr() {}
func (*Call) isExpr()  {}
func (*Bin) isExpr()   {}
func (*Neg) isExpr()   {}
func (*Paren) isExpr() {}
func (*Path) isExpr()  {}

var Axes = []string{
	"ancestor", "ancestor-or-self", "attribute", "child", "descendant",
	"descendant-or-self", "following", "following-sibling", "namespace",
	"parent", "preceding", "preceding-sibling", "self",
}

func IsAxis(s string) bool {
	for _, a := range Axes {
		if a == s {
			return true
		}
	}
	return false
}

func IsReverseAxis(a string) bool {
	switch a {
	case "ancestor", "ancestor-or-self", "preceding", "preceding-sibling":
		return true
	}
	return false
}

func IsNodeType(s string) bool {
	switch s {
	case "comment", "text", "processing-instruction", "node":
		return true
	}
	return false
}

// UsesReverseAxis reports whether any step anywhere in e uses a reverse axis
// (or '..', which is parent:: — a single-node axis, treated as forward here
// because its result for a set is returned in document order by definition of
// C03 "ascending for any expression that uses no reverse axis").
func UsesReverseAxis(e Expr) bool {
	found := false
	Walk(e, func(x Expr) {
		if p, ok := x.(*Path); ok {
			for _, s := range p.Steps {
				if (s.Form == FormFull) && IsReverseAxis(s.Axis) {
					found = true
				}
			}
		}
	})
	return found
}

// Walk visits e and all sub-expressions (including predicates and arguments).
func Walk(e Expr, f func(Expr)) {
	if e == nil {
		return
	}
	f(e)
	switch v := e.(type) {
	case *Call:
		for _, a := range v.Args {
			Walk(a, f)
		}
	case *Bin:
		Walk(v.L, f)
		Walk(v.R, f)
	case *Neg:
		Walk(v.X, f)
	case *Paren:
		Walk(v.X, f)
	case *Path:
		Walk(v.Start, f)
		for _, p := range v.StartPreds {
			Walk(p, f)
		}
		for _, s := range v.Steps {
			if s.Call != nil {
				Walk(s.Call, f)
			}
			for _, p := range s.Preds {
				Walk(p, f)
			}
		}
	}
}
