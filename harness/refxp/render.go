package refxp

import "strings"

// RenderOpt selects one of the surface forms of an AST.
type RenderOpt struct {
	FullParens bool // wrap every operand of a binary/unary operator in parentheses
	WS         int  // 0: none where legal; 1: single spaces around every token; 2: tabs/newlines
	Unabbrev   bool // render abbreviated steps in their expanded form
}

func prec(op string) int {
	switch op {
	case "or":
		return 1
	case "and":
		return 2
	case "=", "!=":
		return 3
	case "<", "<=", ">", ">=":
		return 4
	case "+", "-":
		return 5
	case "*", "div", "mod":
		return 6
	case "|":
		return 8
	}
	return 0
}

type renderer struct {
	opt  RenderOpt
	toks []string
}

// Render produces the expression text. Token boundaries are tracked so that
// whitespace is inserted exactly where XPath needs it in the "none" regime
// (between two name-like tokens, after a name before '-', around operator
// names, …) and everywhere in the other regimes.
func Render(e Expr, opt RenderOpt) string {
	r := &renderer{opt: opt}
	r.expr(e, 0, false)
	return joinTokens(r.toks, opt.WS)
}

func (r *renderer) emit(s string) { r.toks = append(r.toks, s) }

// glue marks that the next token must be attached to the previous one without
// whitespace (inside QNames and variable references).
const glue = "\x00"

func nameLike(s string) bool {
	if s == "" {
		return false
	}
	rs := []rune(s)
	last := rs[len(rs)-1]
	return IsNameChar(last) || last == '*' // '*' then name must be separated too ("* div" fine but "*div" is '*' 'div': safe either way)
}

func joinTokens(toks []string, ws int) string {
	var sb strings.Builder
	sep := " "
	if ws == 2 {
		sep = "\t\n "
	}
	prev := ""
	for i, t := range toks {
		if t == glue {
			continue
		}
		glued := i > 0 && toks[i-1] == glue
		if i > 0 && !glued {
			switch ws {
			case 0:
				if needSpace(prev, t) {
					sb.WriteString(" ")
				}
			default:
				sb.WriteString(sep)
			}
		}
		sb.WriteString(t)
		prev = t
	}
	return sb.String()
}

func needSpace(a, b string) bool {
	if a == "" || b == "" {
		return false
	}
	ra := []rune(a)
	rb := []rune(b)
	la, fb := ra[len(ra)-1], rb[0]
	// name or number followed by name/number/'-'/'.' would fuse into one token
	aName := IsNameChar(la)
	bName := IsNameChar(fb) || fb == '.'
	if aName && bName {
		return true
	}
	// "a" "-" would lex as part of the name; "1" "." etc.
	if aName && fb == '-' {
		// only a problem when a is a name (names may contain '-'); numbers cannot
		if !(la >= '0' && la <= '9' && isNumber(a)) {
			return true
		}
	}
	if la == '.' && (fb == '.' || (fb >= '0' && fb <= '9')) {
		return true
	}
	if la == '/' && fb == '/' {
		return true
	}
	if la == ':' && fb == ':' {
		return true
	}
	if (la == '<' || la == '>' || la == '!') && fb == '=' {
		return true
	}
	// '*' followed by a name is fine lexically, a name followed by '*' too.
	// a name followed by ':' would build a QName / axis: never emitted unglued
	// except "::" which is wanted.
	// a name followed by '(' would become a function call / node type
	if aName && fb == '(' && !isNumber(a) {
		return false // only emitted deliberately (function call, node type)
	}
	return false
}

func isNumber(s string) bool {
	for _, c := range s {
		if !(c >= '0' && c <= '9' || c == '.') {
			return false
		}
	}
	return s != ""
}

func (r *renderer) paren(e Expr) {
	r.emit("(")
	r.expr(e, 0, false)
	r.emit(")")
}

// expr renders e in a context that requires precedence > minPrec (or >= when
// !strict).
func (r *renderer) expr(e Expr, minPrec int, strict bool) {
	switch v := e.(type) {
	case *Bin:
		p := prec(v.Op)
		need := p < minPrec || (strict && p == minPrec)
		if need {
			r.emit("(")
		}
		r.operand(v.L, p, false)
		r.emit(v.Op)
		r.operand(v.R, p, true)
		if need {
			r.emit(")")
		}
	case *Neg:
		// UnaryExpr sits between multiplicative (6) and union (8): precedence 7
		need := 7 < minPrec || (strict && 7 == minPrec)
		if need {
			r.emit("(")
		}
		r.emit("-")
		r.operand(v.X, 7, false)
		if need {
			r.emit(")")
		}
	case *Paren:
		r.paren(v.X)
	case Num:
		r.emit(v.Text)
	case Lit:
		q := v.Quote
		if q == 0 {
			q = '\''
			if strings.ContainsRune(v.V, '\'') {
				q = '"'
			}
		}
		r.emit(string(q) + v.V + string(q))
	case VarRef:
		if v.Prefix != "" {
			r.emit("$" + v.Prefix + ":" + v.Local)
		} else {
			r.emit("$" + v.Local)
		}
	case *Call:
		r.call(v)
	case *Path:
		r.path(v)
	}
}

func (r *renderer) operand(e Expr, p int, right bool) {
	if r.opt.FullParens {
		switch e.(type) {
		case *Bin, *Neg:
			r.paren(e)
			return
		}
	}
	r.expr(e, p, right)
}

func (r *renderer) call(c *Call) {
	if c.Prefix != "" {
		r.emit(c.Prefix)
		r.emit(glue)
		r.emit(":")
		r.emit(glue)
		r.emit(c.Local)
	} else {
		r.emit(c.Local)
	}
	r.emit("(")
	for i, a := range c.Args {
		if i > 0 {
			r.emit(",")
		}
		r.expr(a, 0, false)
	}
	r.emit(")")
}

func (r *renderer) preds(ps []Expr) {
	for _, p := range ps {
		r.emit("[")
		r.expr(p, 0, false)
		r.emit("]")
	}
}

func (r *renderer) path(p *Path) {
	if p.Start != nil {
		switch p.Start.(type) {
		case *Bin, *Neg, *Path:
			r.paren(p.Start)
		default:
			r.expr(p.Start, 0, false)
		}
		r.preds(p.StartPreds)
	}
	for i, s := range p.Steps {
		first := i == 0 && p.Start == nil
		if s.DSlash && !r.opt.Unabbrev {
			r.emit("//")
		} else if s.DSlash {
			if !(first && !p.Abs) {
				r.emit("/")
			}
			r.emit("descendant-or-self")
			r.emit("::")
			r.emit("node")
			r.emit("(")
			r.emit(")")
			r.emit("/")
		} else if !first || p.Abs {
			r.emit("/")
		}
		r.step(s)
	}
	if p.Start == nil && len(p.Steps) == 0 && p.Abs {
		r.emit("/")
	}
}

func (r *renderer) step(s *Step) {
	switch s.Form {
	case FormCall:
		r.call(s.Call)
		return
	case FormDot:
		if r.opt.Unabbrev {
			r.emit("self")
			r.emit("::")
			r.emit("node")
			r.emit("(")
			r.emit(")")
		} else {
			r.emit(".")
		}
		return
	case FormDotDot:
		if r.opt.Unabbrev {
			r.emit("parent")
			r.emit("::")
			r.emit("node")
			r.emit("(")
			r.emit(")")
		} else {
			r.emit("..")
		}
		return
	case FormAt:
		if r.opt.Unabbrev {
			r.emit("attribute")
			r.emit("::")
		} else {
			r.emit("@")
		}
	case FormChild:
		if r.opt.Unabbrev {
			r.emit("child")
			r.emit("::")
		}
	case FormFull:
		r.emit(s.Axis)
		r.emit("::")
	}
	r.test(s.Test)
	r.preds(s.Preds)
}

func (r *renderer) test(t Test) {
	switch t.Kind {
	case TNode:
		r.emit("node")
		r.emit("(")
		r.emit(")")
	case TText:
		r.emit("text")
		r.emit("(")
		r.emit(")")
	case TComment:
		r.emit("comment")
		r.emit("(")
		r.emit(")")
	case TPI:
		r.emit("processing-instruction")
		r.emit("(")
		if t.HasTarget {
			q := "'"
			if strings.Contains(t.Target, "'") {
				q = "\""
			}
			r.emit(q + t.Target + q)
		}
		r.emit(")")
	case TName:
		if t.Prefix != "" {
			r.emit(t.Prefix)
			r.emit(glue)
			r.emit(":")
			r.emit(glue)
			r.emit(t.Local)
		} else {
			r.emit(t.Local)
		}
	}
}

// Canon is the canonical text of an AST (minimal parentheses, no optional
// whitespace, abbreviations as recorded in the AST).
func Canon(e Expr) string { return Render(e, RenderOpt{}) }
