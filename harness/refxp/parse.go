package refxp

import (
	"fmt"
	"unicode"
	"unicode/utf8"
)

// Options switch on recorded deviations of the implementation (known
// findings); the zero value is XPath 1.0 plus the documented extensions.
type Options struct {
	// AllowWSInQName accepts whitespace around the ':' of a QName / NameTest
	// and after the '$' of a variable reference.
	AllowWSInQName bool
	// OpNamesReserved: an NCName spelled or/and/div/mod is only ever an
	// operator; as a name test, function name or QName part it is a syntax
	// error (it remains usable in variable references).
	OpNamesReserved bool
	// NoTrailingDotNumber rejects the numeral form Digits '.' (e.g. "1.").
	NoTrailingDotNumber bool
	// NoUnderscoreStart rejects NCNames that start with '_'.
	NoUnderscoreStart bool
	// UnicodeSpaceIsWS treats every Unicode space character as expression
	// whitespace (XPath only allows #x20 #x9 #xD #xA).
	UnicodeSpaceIsWS bool
	// LiteralBackslashEscapes: inside a literal a backslash followed by one of
	// \ quote n r t is consumed as a pair (the value keeps both characters),
	// so the literal can extend past the quote XPath ends it at; the longest
	// match wins.
	LiteralBackslashEscapes bool
}

type tokKind int

const (
	tEOF tokKind = iota
	tNum
	tLit
	tVar // $qname; text holds "prefix:local" or "local"
	tName
	tStar
	tColon
	tPunct // ( ) [ ] . .. @ , :: / // | + - = != < <= > >=
)

type token struct {
	k     tokKind
	s     string
	quote byte
	ws    bool // preceded by whitespace
	pos   int
}

func isWS(r rune) bool { return r == ' ' || r == '\t' || r == '\r' || r == '\n' }

func isOpName(s string) bool { return s == "or" || s == "and" || s == "div" || s == "mod" }

func IsNameStart(r rune) bool { return unicode.IsLetter(r) || r == '_' || r == '#' }
func IsNameChar(r rune) bool {
	return IsNameStart(r) || unicode.IsDigit(r) || r == '.' || r == '-' || r == 0xB7 ||
		unicode.Is(unicode.Mn, r) || unicode.Is(unicode.Mc, r)
}

func lex(s string, opt Options) ([]token, error) {
	if !utf8.ValidString(s) {
		return nil, fmt.Errorf("invalid UTF-8")
	}
	rs := []rune(s)
	var out []token
	i := 0
	for {
		ws := false
		for i < len(rs) && (isWS(rs[i]) || (opt.UnicodeSpaceIsWS && unicode.IsSpace(rs[i]))) {
			i++
			ws = true
		}
		if i >= len(rs) {
			out = append(out, token{k: tEOF, ws: ws, pos: i})
			return out, nil
		}
		r := rs[i]
		start := i
		two := ""
		if i+1 < len(rs) {
			two = string(rs[i : i+2])
		}
		switch {
		case r >= '0' && r <= '9' || (r == '.' && i+1 < len(rs) && rs[i+1] >= '0' && rs[i+1] <= '9'):
			for i < len(rs) && rs[i] >= '0' && rs[i] <= '9' {
				i++
			}
			if i < len(rs) && rs[i] == '.' {
				i++
				for i < len(rs) && rs[i] >= '0' && rs[i] <= '9' {
					i++
				}
			}
			if opt.NoTrailingDotNumber && rs[i-1] == '.' {
				return nil, fmt.Errorf("numeral with trailing '.' at %d", start)
			}
			out = append(out, token{k: tNum, s: string(rs[start:i]), ws: ws, pos: start})
		case r == '"' || r == '\'':
			i++
			for i < len(rs) && rs[i] != r {
				i++
			}
			if opt.LiteralBackslashEscapes {
				if e := longestEscapedLiteral(rs, start); e > i || i >= len(rs) || r == '"' {
					i = e
				}
			}
			if i >= len(rs) || i < 0 {
				return nil, fmt.Errorf("unterminated literal at %d", start)
			}
			out = append(out, token{k: tLit, s: string(rs[start+1 : i]), quote: byte(r), ws: ws, pos: start})
			i++
		case r == '$':
			i++
			if opt.AllowWSInQName {
				for i < len(rs) && isWS(rs[i]) {
					i++
				}
			}
			n1, j := lexNCName(rs, i)
			if n1 == "" {
				return nil, fmt.Errorf("bad variable reference at %d", start)
			}
			i = j
			name := n1
			// optional :NCName
			k := i
			if opt.AllowWSInQName {
				for k < len(rs) && isWS(rs[k]) {
					k++
				}
			}
			if k < len(rs) && rs[k] == ':' && !(k+1 < len(rs) && rs[k+1] == ':') {
				k2 := k + 1
				if opt.AllowWSInQName {
					for k2 < len(rs) && isWS(rs[k2]) {
						k2++
					}
				}
				n2, j2 := lexNCName(rs, k2)
				if n2 != "" {
					name = n1 + ":" + n2
					i = j2
				}
			}
			out = append(out, token{k: tVar, s: name, ws: ws, pos: start})
		case IsNameStart(r):
			if opt.NoUnderscoreStart && r == '_' {
				return nil, fmt.Errorf("name starting with '_' at %d", start)
			}
			n, j := lexNCName(rs, i)
			i = j
			out = append(out, token{k: tName, s: n, ws: ws, pos: start})
		case r == '*':
			i++
			out = append(out, token{k: tStar, s: "*", ws: ws, pos: start})
		case two == "::" || two == ".." || two == "//" || two == "!=" || two == "<=" || two == ">=":
			i += 2
			out = append(out, token{k: tPunct, s: two, ws: ws, pos: start})
		case r == ':':
			i++
			out = append(out, token{k: tColon, s: ":", ws: ws, pos: start})
		case r == '(' || r == ')' || r == '[' || r == ']' || r == '.' || r == '@' || r == ',' ||
			r == '/' || r == '|' || r == '+' || r == '-' || r == '=' || r == '<' || r == '>':
			i++
			out = append(out, token{k: tPunct, s: string(r), ws: ws, pos: start})
		default:
			return nil, fmt.Errorf("unexpected character %q at %d", r, start)
		}
	}
}

// longestEscapedLiteral returns the index of the closing quote of the longest
// token matching  q ( [^q] | '\\' [\\ q n r t] )* q  starting at start, or -1.
func longestEscapedLiteral(rs []rune, start int) int {
	q := rs[start]
	best := -1
	// positions reachable after consuming a prefix of the body
	reach := map[int]bool{start + 1: true}
	for len(reach) > 0 {
		next := map[int]bool{}
		for p := range reach {
			if p >= len(rs) {
				continue
			}
			if rs[p] == q {
				if p > best {
					best = p
				}
				continue
			}
			// a single-quoted literal may also take the backslash as a plain
			// character; a double-quoted one may not (its grammar excludes it)
			if !(q == '"' && rs[p] == '\\') {
				next[p+1] = true
			}
			if rs[p] == '\\' && p+1 < len(rs) {
				switch rs[p+1] {
				case '\\', q, 'n', 'r', 't':
					next[p+2] = true
				}
			}
		}
		reach = next
	}
	return best
}

func lexNCName(rs []rune, i int) (string, int) {
	if i >= len(rs) || !IsNameStart(rs[i]) {
		return "", i
	}
	j := i + 1
	for j < len(rs) && IsNameChar(rs[j]) {
		j++
	}
	return string(rs[i:j]), j
}

type parser struct {
	toks []token
	i    int
	opt  Options
}

func (p *parser) peek() token  { return p.toks[p.i] }
func (p *parser) peek2() token { return p.toks[min(p.i+1, len(p.toks)-1)] }
func (p *parser) peekN(n int) token {
	return p.toks[min(p.i+n, len(p.toks)-1)]
}
func (p *parser) next() token { t := p.toks[p.i]; p.i++; return t }
func (p *parser) isP(s string) bool {
	t := p.peek()
	return t.k == tPunct && t.s == s
}
func (p *parser) isOpName(s string) bool {
	t := p.peek()
	return t.k == tName && t.s == s
}
func (p *parser) expectP(s string) error {
	if !p.isP(s) {
		return fmt.Errorf("expected %q at %d", s, p.peek().pos)
	}
	p.i++
	return nil
}

// Parse parses an XPath 1.0 expression (plus the library's documented
// extensions: function call as a step, `*:name`, '#' in names).
func Parse(s string, opt Options) (Expr, error) {
	toks, err := lex(s, opt)
	if err != nil {
		return nil, err
	}
	p := &parser{toks: toks, opt: opt}
	e, err := p.orExpr()
	if err != nil {
		return nil, err
	}
	if p.peek().k != tEOF {
		return nil, fmt.Errorf("unexpected token %q at %d", p.peek().s, p.peek().pos)
	}
	return e, nil
}

func (p *parser) binLevel(sub func() (Expr, error), match func() (string, bool)) (Expr, error) {
	l, err := sub()
	if err != nil {
		return nil, err
	}
	for {
		op, ok := match()
		if !ok {
			return l, nil
		}
		p.i++
		r, err := sub()
		if err != nil {
			return nil, err
		}
		l = &Bin{Op: op, L: l, R: r}
	}
}

func (p *parser) orExpr() (Expr, error) {
	return p.binLevel(p.andExpr, func() (string, bool) { return "or", p.isOpName("or") })
}
func (p *parser) andExpr() (Expr, error) {
	return p.binLevel(p.eqExpr, func() (string, bool) { return "and", p.isOpName("and") })
}
func (p *parser) punctOp(ops ...string) func() (string, bool) {
	return func() (string, bool) {
		t := p.peek()
		if t.k == tPunct {
			for _, o := range ops {
				if t.s == o {
					return o, true
				}
			}
		}
		return "", false
	}
}
func (p *parser) eqExpr() (Expr, error) { return p.binLevel(p.relExpr, p.punctOp("=", "!=")) }
func (p *parser) relExpr() (Expr, error) {
	return p.binLevel(p.addExpr, p.punctOp("<", "<=", ">", ">="))
}
func (p *parser) addExpr() (Expr, error) { return p.binLevel(p.mulExpr, p.punctOp("+", "-")) }
func (p *parser) mulExpr() (Expr, error) {
	return p.binLevel(p.unaryExpr, func() (string, bool) {
		t := p.peek()
		if t.k == tStar {
			return "*", true
		}
		if t.k == tName && (t.s == "div" || t.s == "mod") {
			return t.s, true
		}
		return "", false
	})
}

func (p *parser) unaryExpr() (Expr, error) {
	if p.isP("-") {
		p.i++
		x, err := p.unaryExpr()
		if err != nil {
			return nil, err
		}
		return &Neg{X: x}, nil
	}
	return p.unionExpr()
}

func (p *parser) unionExpr() (Expr, error) {
	return p.binLevel(p.pathExpr, p.punctOp("|"))
}

// adjacent reports whether token b directly follows token a without whitespace.
func (p *parser) tight(t token) bool { return p.opt.AllowWSInQName || !t.ws }

// qnameAhead recognises NCName (':' NCName)? starting at the current token
// and returns prefix, local and the number of tokens it spans.
func (p *parser) qnameAhead() (string, string, int) {
	t := p.peek()
	if t.k != tName {
		return "", "", 0
	}
	if p.opt.OpNamesReserved && isOpName(t.s) {
		return "", "", 0
	}
	c, n := p.peek2(), p.peekN(2)
	if c.k == tColon && p.tight(c) && n.k == tName && p.tight(n) {
		if p.opt.OpNamesReserved && isOpName(n.s) {
			return "", "", 0
		}
		return t.s, n.s, 3
	}
	return "", t.s, 1
}

func (p *parser) startsFunctionCall() bool {
	pre, loc, n := p.qnameAhead()
	if n == 0 {
		return false
	}
	nx := p.peekN(n)
	if !(nx.k == tPunct && nx.s == "(") {
		return false
	}
	if pre == "" && IsNodeType(loc) {
		return false
	}
	return true
}

func (p *parser) functionCall() (*Call, error) {
	pre, loc, n := p.qnameAhead()
	p.i += n
	if err := p.expectP("("); err != nil {
		return nil, err
	}
	c := &Call{Prefix: pre, Local: loc}
	if p.isP(")") {
		p.i++
		return c, nil
	}
	for {
		a, err := p.orExpr()
		if err != nil {
			return nil, err
		}
		c.Args = append(c.Args, a)
		if p.isP(",") {
			p.i++
			continue
		}
		if err := p.expectP(")"); err != nil {
			return nil, err
		}
		return c, nil
	}
}

func (p *parser) predicates() ([]Expr, error) {
	var ps []Expr
	for p.isP("[") {
		p.i++
		e, err := p.orExpr()
		if err != nil {
			return nil, err
		}
		if err := p.expectP("]"); err != nil {
			return nil, err
		}
		ps = append(ps, e)
	}
	return ps, nil
}

func (p *parser) pathExpr() (Expr, error) {
	t := p.peek()
	var start Expr
	switch {
	case t.k == tVar:
		p.i++
		pre, loc := "", t.s
		for i := 0; i < len(t.s); i++ {
			if t.s[i] == ':' {
				pre, loc = t.s[:i], t.s[i+1:]
			}
		}
		start = VarRef{Prefix: pre, Local: loc}
	case t.k == tPunct && t.s == "(":
		p.i++
		e, err := p.orExpr()
		if err != nil {
			return nil, err
		}
		if err := p.expectP(")"); err != nil {
			return nil, err
		}
		start = &Paren{X: e}
	case t.k == tLit:
		p.i++
		start = Lit{V: t.s, Quote: t.quote}
	case t.k == tNum:
		p.i++
		start = Num{Text: t.s}
	case p.startsFunctionCall():
		c, err := p.functionCall()
		if err != nil {
			return nil, err
		}
		start = c
	}
	if start != nil {
		preds, err := p.predicates()
		if err != nil {
			return nil, err
		}
		if !p.isP("/") && !p.isP("//") {
			if len(preds) == 0 {
				return start, nil
			}
			return &Path{Start: start, StartPreds: preds}, nil
		}
		path := &Path{Start: start, StartPreds: preds}
		ds := p.next().s == "//"
		if err := p.relPath(path, ds); err != nil {
			return nil, err
		}
		return path, nil
	}
	// LocationPath
	path := &Path{}
	if p.isP("/") {
		p.i++
		path.Abs = true
		if !p.startsStep() {
			return path, nil
		}
		if err := p.relPath(path, false); err != nil {
			return nil, err
		}
		return path, nil
	}
	if p.isP("//") {
		p.i++
		path.Abs = true
		if err := p.relPath(path, true); err != nil {
			return nil, err
		}
		return path, nil
	}
	if err := p.relPath(path, false); err != nil {
		return nil, err
	}
	return path, nil
}

func (p *parser) startsStep() bool {
	t := p.peek()
	switch t.k {
	case tName:
		return !(p.opt.OpNamesReserved && isOpName(t.s))
	case tStar:
		return true
	case tPunct:
		return t.s == "." || t.s == ".." || t.s == "@"
	}
	return false
}

func (p *parser) relPath(path *Path, firstDS bool) error {
	ds := firstDS
	for {
		s, err := p.step()
		if err != nil {
			return err
		}
		s.DSlash = ds
		path.Steps = append(path.Steps, s)
		if p.isP("/") {
			p.i++
			ds = false
		} else if p.isP("//") {
			p.i++
			ds = true
		} else {
			return nil
		}
	}
}

func (p *parser) step() (*Step, error) {
	t := p.peek()
	if t.k == tPunct && t.s == "." {
		p.i++
		return &Step{Form: FormDot, Axis: "self", Test: Test{Kind: TNode}}, nil
	}
	if t.k == tPunct && t.s == ".." {
		p.i++
		return &Step{Form: FormDotDot, Axis: "parent", Test: Test{Kind: TNode}}, nil
	}
	st := &Step{Form: FormChild, Axis: "child"}
	if t.k == tPunct && t.s == "@" {
		p.i++
		st.Form = FormAt
		st.Axis = "attribute"
	} else if t.k == tName && p.peek2().k == tPunct && p.peek2().s == "::" {
		if !IsAxis(t.s) {
			return nil, fmt.Errorf("unknown axis %q", t.s)
		}
		p.i += 2
		st.Form = FormFull
		st.Axis = t.s
	} else if p.startsFunctionCall() {
		c, err := p.functionCall()
		if err != nil {
			return nil, err
		}
		return &Step{Form: FormCall, Call: c}, nil
	}
	tst, err := p.nodeTest()
	if err != nil {
		return nil, err
	}
	st.Test = tst
	st.Preds, err = p.predicates()
	if err != nil {
		return nil, err
	}
	return st, nil
}

func (p *parser) nodeTest() (Test, error) {
	t := p.peek()
	switch t.k {
	case tStar:
		// '*' or '*:name' (extension)
		c, n := p.peek2(), p.peekN(2)
		if c.k == tColon && p.tight(c) && n.k == tName && p.tight(n) {
			if p.opt.OpNamesReserved && isOpName(n.s) {
				return Test{}, fmt.Errorf("operator name %q used as a name at %d", n.s, n.pos)
			}
			p.i += 3
			return Test{Kind: TName, Prefix: "*", Local: n.s}, nil
		}
		p.i++
		return Test{Kind: TName, Local: "*"}, nil
	case tName:
		if p.opt.OpNamesReserved && isOpName(t.s) {
			return Test{}, fmt.Errorf("operator name %q used as a name at %d", t.s, t.pos)
		}
		nx := p.peek2()
		if nx.k == tPunct && nx.s == "(" && IsNodeType(t.s) {
			p.i += 2
			tt := Test{}
			switch t.s {
			case "node":
				tt.Kind = TNode
			case "text":
				tt.Kind = TText
			case "comment":
				tt.Kind = TComment
			case "processing-instruction":
				tt.Kind = TPI
				if p.peek().k == tLit {
					tt.HasTarget = true
					tt.Target = p.next().s
				}
			}
			if err := p.expectP(")"); err != nil {
				return Test{}, err
			}
			return tt, nil
		}
		if nx.k == tColon && p.tight(nx) {
			n := p.peekN(2)
			if n.k == tName && p.tight(n) {
				if p.opt.OpNamesReserved && isOpName(n.s) {
					return Test{}, fmt.Errorf("operator name %q used as a name at %d", n.s, n.pos)
				}
				p.i += 3
				return Test{Kind: TName, Prefix: t.s, Local: n.s}, nil
			}
			if n.k == tStar && p.tight(n) {
				p.i += 3
				return Test{Kind: TName, Prefix: t.s, Local: "*"}, nil
			}
			return Test{}, fmt.Errorf("bad name test at %d", t.pos)
		}
		p.i++
		return Test{Kind: TName, Local: t.s}, nil
	}
	return Test{}, fmt.Errorf("expected node test at %d", t.pos)
}
