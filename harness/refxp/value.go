package refxp

import (
	"math"
	"regexp"
	"strconv"
	"strings"

	"xv/adoc"
)

// Value is one of: NodeSet, float64, string, bool.
type Value interface{}

// NodeSet is always in document order and duplicate free.
type NodeSet []*adoc.Node

type Name struct{ Space, Local string }

// ---- conversions (XPath 1.0 §4) ---------------------------------------------

// StringToNumber: optional whitespace, optional '-', Number, optional
// whitespace; anything else is NaN.
func StringToNumber(s string) float64 {
	i, j := 0, len(s)
	for i < j && isWSb(s[i]) {
		i++
	}
	for j > i && isWSb(s[j-1]) {
		j--
	}
	t := s[i:j]
	if t == "" {
		return math.NaN()
	}
	u := t
	if u[0] == '-' {
		u = u[1:]
	}
	digits, dots := 0, 0
	for k := 0; k < len(u); k++ {
		switch {
		case u[k] >= '0' && u[k] <= '9':
			digits++
		case u[k] == '.':
			dots++
		default:
			return math.NaN()
		}
	}
	if digits == 0 || dots > 1 {
		return math.NaN()
	}
	f, err := strconv.ParseFloat(t, 64)
	if err != nil {
		// only range errors are possible here; ParseFloat returns ±Inf then
		if ne, ok := err.(*strconv.NumError); ok && ne.Err == strconv.ErrRange {
			return f
		}
		return math.NaN()
	}
	return f
}

func isWSb(c byte) bool { return c == ' ' || c == '\t' || c == '\r' || c == '\n' }

// NumberToString is the canonical XPath spelling: NaN, Infinity, -Infinity, 0
// for both zeros, integers without point, otherwise the shortest decimal
// expansion (no exponent) that reads back to the same double.
func NumberToString(f float64) string {
	switch {
	case math.IsNaN(f):
		return "NaN"
	case math.IsInf(f, 1):
		return "Infinity"
	case math.IsInf(f, -1):
		return "-Infinity"
	case f == 0:
		return "0"
	}
	return strconv.FormatFloat(f, 'f', -1, 64)
}

var numShape = regexp.MustCompile(`^-?([0-9]+(\.[0-9]+)?|\.[0-9]+)$`)

// NumberStringOK judges a number→string conversion by the property's own
// criterion rather than by one canonical spelling.
func NumberStringOK(f float64, s string) bool {
	switch {
	case math.IsNaN(f):
		return s == "NaN"
	case math.IsInf(f, 1):
		return s == "Infinity"
	case math.IsInf(f, -1):
		return s == "-Infinity"
	case f == 0:
		return s == "0"
	}
	if !numShape.MatchString(s) {
		return false
	}
	if f == math.Trunc(f) && strings.Contains(s, ".") {
		return false
	}
	if (f < 0) != strings.HasPrefix(s, "-") {
		return false
	}
	g, err := strconv.ParseFloat(s, 64)
	return err == nil && g == f
}

func ToString(v Value) string {
	switch x := v.(type) {
	case NodeSet:
		if len(x) == 0 {
			return ""
		}
		return x[0].StringValue()
	case float64:
		return NumberToString(x)
	case string:
		return x
	case bool:
		if x {
			return "true"
		}
		return "false"
	}
	return ""
}

func ToNumber(v Value) float64 {
	switch x := v.(type) {
	case NodeSet:
		return StringToNumber(ToString(x))
	case float64:
		return x
	case string:
		return StringToNumber(x)
	case bool:
		if x {
			return 1
		}
		return 0
	}
	return math.NaN()
}

func ToBool(v Value) bool {
	switch x := v.(type) {
	case NodeSet:
		return len(x) > 0
	case float64:
		return x != 0 && !math.IsNaN(x)
	case string:
		return len(x) > 0
	case bool:
		return x
	}
	return false
}

// Round: the integer closest to x, ties toward positive infinity; NaN and
// infinities pass through. (The sign of a zero result is not compared.)
func Round(x float64) float64 {
	if math.IsNaN(x) || math.IsInf(x, 0) {
		return x
	}
	if math.Abs(x) >= 1<<52 {
		return x // already integral
	}
	f := math.Floor(x)
	if x-f >= 0.5 {
		return f + 1
	}
	return f
}

func TypeName(v Value) string {
	switch v.(type) {
	case NodeSet:
		return "node-set"
	case float64:
		return "number"
	case string:
		return "string"
	case bool:
		return "boolean"
	}
	return "?"
}
