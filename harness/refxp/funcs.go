package refxp

import (
	"math"
	"strings"
	"unicode/utf8"

	"xv/adoc"
)

// Quirks reproduce recorded, unrepaired deviations of the implementation
// (one switch per open entry of known_findings.json). All false = XPath 1.0.
type Quirks struct {
	// RoundNegTieAway: round(x) for x = -(k+0.5), k >= 1 gives -(k+1)
	// (pinned by the repository's own TestFunctionRound).
	RoundNegTieAway bool
}

func evalArgs(c *Call, ctx Ctx) ([]Value, error) {
	args := make([]Value, len(c.Args))
	for i, a := range c.Args {
		v, err := eval(a, ctx)
		if err != nil {
			return nil, err
		}
		args[i] = v
	}
	return args, nil
}

func evalCall(c *Call, ctx Ctx) (Value, error) {
	args, err := evalArgs(c, ctx)
	if err != nil {
		return nil, err
	}
	space := ""
	if c.Prefix != "" {
		uri, ok := ctx.Env.NS[c.Prefix]
		if !ok {
			return nil, errf("unbound prefix %q", c.Prefix)
		}
		space = uri
	}
	if uf, ok := ctx.Env.Funcs[Name{space, c.Local}]; ok && uf != nil {
		return uf(ctx, args)
	}
	if space != "" {
		return nil, errf("unknown function {%s}%s", space, c.Local)
	}
	return Builtin(c.Local, ctx, args)
}

func needN(args []Value, ns ...int) error {
	for _, n := range ns {
		if len(args) == n {
			return nil
		}
	}
	return errf("wrong number of arguments")
}

// argOrCtx returns the explicit node-set argument or, with no argument, the
// context node(-set).
func nodeArg(args []Value, ctx Ctx) (NodeSet, error) {
	if len(args) == 0 {
		return ctx.Nodes, nil
	}
	ns, ok := args[0].(NodeSet)
	if !ok {
		return nil, errf("argument must be a node-set")
	}
	return ns, nil
}

func strArg(args []Value, ctx Ctx) string {
	if len(args) == 0 {
		return ToString(ctx.Nodes)
	}
	return ToString(args[0])
}

func isXMLSpace(r rune) bool { return r == ' ' || r == '\t' || r == '\r' || r == '\n' }

func NormalizeSpace(s string) string {
	return strings.Join(strings.FieldsFunc(s, isXMLSpace), " ")
}

func Substring(s string, p, l float64, hasLen bool) string {
	rs := []rune(s)
	start := Round(p)
	var sb strings.Builder
	if !hasLen {
		for i, r := range rs {
			if float64(i+1) >= start {
				sb.WriteRune(r)
			}
		}
		return sb.String()
	}
	end := start + Round(l)
	for i, r := range rs {
		q := float64(i + 1)
		if q >= start && q < end {
			sb.WriteRune(r)
		}
	}
	return sb.String()
}

func Translate(s, from, to string) string {
	f := []rune(from)
	t := []rune(to)
	m := map[rune]int{}
	for i, r := range f {
		if _, ok := m[r]; !ok {
			m[r] = i
		}
	}
	var sb strings.Builder
	for _, r := range s {
		if i, ok := m[r]; ok {
			if i < len(t) {
				sb.WriteRune(t[i])
			}
			continue
		}
		sb.WriteRune(r)
	}
	return sb.String()
}

func asciiLower(s string) string {
	b := []byte(s)
	for i, c := range b {
		if c >= 'A' && c <= 'Z' {
			b[i] = c + 32
		}
	}
	return string(b)
}

// Lang implements lang(L) for one context node.
func Lang(n *adoc.Node, l string) bool {
	e := n
	if e.Kind != adoc.Elem {
		e = e.Parent
	}
	for ; e != nil && e.Kind == adoc.Elem; e = e.Parent {
		for _, a := range e.Attrs {
			if a.Space == adoc.XMLNS && a.Local == "lang" {
				v := asciiLower(a.Value)
				want := asciiLower(l)
				return v == want || strings.HasPrefix(v, want+"-")
			}
		}
	}
	return false
}

func firstNode(ns NodeSet) *adoc.Node {
	if len(ns) == 0 {
		return nil
	}
	return ns[0]
}

// NodeNames returns local-name, namespace-uri and the library's name()
// notation for a node.
func NodeNames(n *adoc.Node) (local, uri, name string) {
	if n == nil {
		return "", "", ""
	}
	switch n.Kind {
	case adoc.Elem, adoc.Attr:
		local, uri = n.Local, n.Space
	case adoc.PI, adoc.NS:
		local = n.Local
	}
	name = local
	if uri != "" {
		name = "{" + uri + "}" + local
	}
	return
}

func Builtin(name string, ctx Ctx, args []Value) (Value, error) {
	switch name {
	case "last":
		if err := needN(args, 0); err != nil {
			return nil, err
		}
		return float64(ctx.Size), nil
	case "position":
		if err := needN(args, 0); err != nil {
			return nil, err
		}
		return float64(ctx.Pos), nil
	case "count":
		if err := needN(args, 1); err != nil {
			return nil, err
		}
		ns, ok := args[0].(NodeSet)
		if !ok {
			return nil, errf("count of a non-node-set")
		}
		return float64(len(ns)), nil
	case "local-name", "namespace-uri", "name":
		if err := needN(args, 0, 1); err != nil {
			return nil, err
		}
		ns, err := nodeArg(args, ctx)
		if err != nil {
			return nil, err
		}
		l, u, n := NodeNames(firstNode(ns))
		switch name {
		case "local-name":
			return l, nil
		case "namespace-uri":
			return u, nil
		}
		return n, nil
	case "string":
		if err := needN(args, 0, 1); err != nil {
			return nil, err
		}
		return strArg(args, ctx), nil
	case "concat":
		if len(args) < 2 {
			return nil, errf("wrong number of arguments")
		}
		var sb strings.Builder
		for _, a := range args {
			sb.WriteString(ToString(a))
		}
		return sb.String(), nil
	case "starts-with":
		if err := needN(args, 2); err != nil {
			return nil, err
		}
		return strings.HasPrefix(ToString(args[0]), ToString(args[1])), nil
	case "contains":
		if err := needN(args, 2); err != nil {
			return nil, err
		}
		return strings.Contains(ToString(args[0]), ToString(args[1])), nil
	case "substring-before":
		if err := needN(args, 2); err != nil {
			return nil, err
		}
		s, t := ToString(args[0]), ToString(args[1])
		if i := strings.Index(s, t); i >= 0 {
			return s[:i], nil
		}
		return "", nil
	case "substring-after":
		if err := needN(args, 2); err != nil {
			return nil, err
		}
		s, t := ToString(args[0]), ToString(args[1])
		if i := strings.Index(s, t); i >= 0 {
			return s[i+len(t):], nil
		}
		return "", nil
	case "substring":
		if err := needN(args, 2, 3); err != nil {
			return nil, err
		}
		if len(args) == 2 {
			return Substring(ToString(args[0]), ToNumber(args[1]), 0, false), nil
		}
		return Substring(ToString(args[0]), ToNumber(args[1]), ToNumber(args[2]), true), nil
	case "string-length":
		if err := needN(args, 0, 1); err != nil {
			return nil, err
		}
		return float64(utf8.RuneCountInString(strArg(args, ctx))), nil
	case "normalize-space":
		if err := needN(args, 0, 1); err != nil {
			return nil, err
		}
		return NormalizeSpace(strArg(args, ctx)), nil
	case "translate":
		if err := needN(args, 3); err != nil {
			return nil, err
		}
		return Translate(ToString(args[0]), ToString(args[1]), ToString(args[2])), nil
	case "boolean":
		if err := needN(args, 1); err != nil {
			return nil, err
		}
		return ToBool(args[0]), nil
	case "not":
		if err := needN(args, 1); err != nil {
			return nil, err
		}
		return !ToBool(args[0]), nil
	case "true":
		if err := needN(args, 0); err != nil {
			return nil, err
		}
		return true, nil
	case "false":
		if err := needN(args, 0); err != nil {
			return nil, err
		}
		return false, nil
	case "lang":
		if err := needN(args, 1); err != nil {
			return nil, err
		}
		if len(ctx.Nodes) == 0 {
			return false, nil
		}
		return Lang(ctx.Nodes[0], ToString(args[0])), nil
	case "number":
		if err := needN(args, 0, 1); err != nil {
			return nil, err
		}
		if len(args) == 0 {
			return ToNumber(ctx.Nodes), nil
		}
		return ToNumber(args[0]), nil
	case "sum":
		if err := needN(args, 1); err != nil {
			return nil, err
		}
		ns, ok := args[0].(NodeSet)
		if !ok {
			return nil, errf("sum of a non-node-set")
		}
		s := 0.0
		for _, n := range ns {
			s += StringToNumber(n.StringValue())
		}
		return s, nil
	case "floor":
		if err := needN(args, 1); err != nil {
			return nil, err
		}
		return math.Floor(ToNumber(args[0])), nil
	case "ceiling":
		if err := needN(args, 1); err != nil {
			return nil, err
		}
		return math.Ceil(ToNumber(args[0])), nil
	case "round":
		if err := needN(args, 1); err != nil {
			return nil, err
		}
		x := ToNumber(args[0])
		if ctx.Env.Q.RoundNegTieAway && x < -1 && x == math.Trunc(x)-0.5 {
			return math.Trunc(x) - 1, nil
		}
		return Round(x), nil
	}
	return nil, errf("unknown function %s", name)
}
