#!/bin/sh
# Builds the framework offline from files on disk and warms the Go build cache.
cd "$(dirname "$0")" || exit 1
export GOFLAGS=-mod=mod GOPROXY=off GOSUMDB=off GOTOOLCHAIN=local
mkdir -p .bin evidence replays
(cd harness && go build -o ../.bin/xv-setup ./cmd/xv) || exit 1
./.bin/xv-setup selftest || exit 1
rm -f .bin/xv-setup
# warm the -race build cache (used by the auxiliary pass of C14) and the build of the command line tool
(cd harness && go build -race -o ../.bin/xv-race-setup ./cmd/xv && go build -o ../.bin/xsel-setup github.com/ChrisTrenkamp/xsel/xsel) || echo "warning: race/CLI warm-up build failed" >&2
rm -f .bin/xv-race-setup .bin/xsel-setup
echo setup ok
