#!/bin/sh
# Builds the framework offline from files on disk and warms the Go build cache.
cd "$(dirname "$0")" || exit 1
export GOFLAGS=-mod=mod GOPROXY=off GOSUMDB=off GOTOOLCHAIN=local
mkdir -p .bin evidence replays
(cd harness && go build -o ../.bin/xv-setup ./cmd/xv) || exit 1
./.bin/xv-setup selftest || exit 1
rm -f .bin/xv-setup
echo setup ok
